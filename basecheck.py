#!/usr/bin/env python3
# Runs the repository's baseline suite (guard off) and compares with BASELINE.json's stable_pass set.
import json,subprocess,os,sys
base=json.load(open('/root/.vp/BASELINE.json'))
env=dict(os.environ,GOFLAGS='-mod=mod',GOPROXY='off',GOSUMDB='off',GOTOOLCHAIN='local')
repo=sys.argv[1] if len(sys.argv)>1 else '/repo'
p=subprocess.run(['go','test','-json','-vet=off','-count=1','-timeout','25m','./...'],cwd=repo,env=env,capture_output=True,text=True)
passed=set()
for l in p.stdout.splitlines():
    try: e=json.loads(l)
    except Exception: continue
    if e.get('Action')=='pass' and e.get('Test'):
        passed.add(e['Package']+'::'+e['Test'])
want=set(base['stable_pass'])
missing=sorted(want-passed)
print('baseline stable_pass=%d passed_now=%d missing=%d'%(len(want),len(passed&want),len(missing)))
for m in missing[:40]: print('  MISSING',m)
sys.exit(1 if missing else 0)
