#!/bin/sh
# usage: dbg.sh <ID> <tier> [extra vharness args]  — single-process run with per-item log
export GOFLAGS=-mod=mod GOPROXY=off GOSUMDB=off GOTOOLCHAIN=local GODEBUG=goindex=0
rm -rf /tmp/dbg && mkdir -p /tmp/dbg
/verif/bin/vrewrite -out /tmp/dbg -hooks /verif/hooks -extra /verif/extra batch concurrencylimiter reactive graphql graphql/schemabuilder federation sqlgen livesql || exit 2
(cd /verif/engine && go build -tags verif -overlay /tmp/dbg/overlay.json -o /tmp/dbg/vharness ./cmd/vharness) || exit 2
ID=$1; TIER=$2; shift 2
VERIF_ITEMLOG=1 GOMAXPROCS=1 /tmp/dbg/vharness run -prop $ID -tier $TIER -out /tmp/dbg/out -result /tmp/dbg/res.json "$@"
