// vcheck drives one property check: rewrite /repo's working tree, build the
// harness binary through the overlay, run it sharded, merge the reports into
// /verif/evidence/<ID>.json and print VIOLATION / KNOWN-FINDING lines.
package main

import (
	"encoding/binary"
	"encoding/json"
	"flag"
	"fmt"
	"os"
	"os/exec"
	"path/filepath"
	"runtime"
	"sort"
	"strconv"
	"strings"
	"sync"
	"time"

	"verif/explore"
)

var instrumented = []string{"batch", "concurrencylimiter", "reactive", "graphql", "graphql/schemabuilder", "federation", "sqlgen", "livesql"}

type known struct {
	Status    string `json:"status"`
	Property  string `json:"property"`
	Signature string `json:"signature"`
	What      string `json:"what"`
	Commit    string `json:"commit,omitempty"`
}

func env() []string {
	e := os.Environ()
	return append(e, "GOFLAGS=-mod=mod", "GOPROXY=off", "GOSUMDB=off", "GOTOOLCHAIN=local", "GODEBUG=goindex=0")
}

func die(code int, format string, a ...interface{}) {
	fmt.Fprintf(os.Stderr, "vcheck: "+format+"\n", a...)
	os.Exit(code)
}

func main() {
	verif := "/verif"
	if v := os.Getenv("VERIF_ROOT"); v != "" {
		verif = v
	}
	repo := "/repo"
	if v := os.Getenv("VERIF_REPO"); v != "" {
		repo = v
	}
	if len(os.Args) >= 3 && os.Args[1] == "replay" {
		replay(verif, repo, os.Args[2])
		return
	}
	if len(os.Args) >= 2 && os.Args[1] == "warm" {
		scratch, _ := build(verif, repo)
		os.RemoveAll(scratch)
		return
	}
	if len(os.Args) < 2 {
		die(2, "usage: vcheck <ID> [--tier quick|thorough] | vcheck replay <file>")
	}
	id := os.Args[1]
	fs := flag.NewFlagSet("vcheck", flag.ExitOnError)
	tier := fs.String("tier", os.Getenv("VERIF_TIER"), "quick|thorough")
	level := fs.String("level", levelOf(id), "evidence level")
	bound := fs.Int("bound", -1, "override deviation bound")
	nsh := fs.Int("shards", runtime.NumCPU(), "worker processes")
	deadline := fs.Int("deadline", 0, "per-shard exploration deadline (s); 0 = tier default")
	keep := fs.Bool("keep", false, "keep scratch dir")
	only := fs.String("harness", "", "only this harness")
	noEvidence := fs.Bool("no-evidence", false, "do not write the evidence file")
	fs.Parse(os.Args[2:])
	if *tier == "" {
		*tier = "quick"
	}
	seed, _ := strconv.Atoi(os.Getenv("VERIF_SEED"))
	start := time.Now()

	scratch, bin := build(verif, repo)
	if !*keep {
		defer os.RemoveAll(scratch)
	}
	dl := *deadline
	if dl == 0 {
		dl = 240
		if *tier == "thorough" {
			dl = 1500
		}
	}
	outDir := filepath.Join(verif, "out", id)
	os.RemoveAll(outDir)
	os.MkdirAll(outDir, 0o755)

	n := *nsh
	var wg sync.WaitGroup
	fails := make([]string, n)
	for i := 0; i < n; i++ {
		wg.Add(1)
		go func(i int) {
			defer wg.Done()
			// VERIF_SEED only rotates the shard assignment
			sh := (i + seed) % n
			args := []string{"run", "-prop", id, "-tier", *tier, "-shard", fmt.Sprint(sh), "-nshards", fmt.Sprint(n),
				"-out", outDir, "-result", filepath.Join(scratch, fmt.Sprintf("res.%d.json", i)), "-deadline", fmt.Sprint(dl), "-bound", fmt.Sprint(*bound)}
			if *only != "" {
				args = append(args, "-harness", *only)
			}
			cmd := exec.Command(bin, args...)
			cmd.Env = append(env(), "GOMAXPROCS=1", "GOMEMLIMIT=6GiB", "VERIF_ROOT="+verif, "VERIF_REPO="+repo)
			if *tier == "thorough" {
				// the thorough tier runs every explored item with the map-access race monitor on
				cmd.Env = append(cmd.Env, "VERIF_RACE=1")
			}
			cmd.Dir = filepath.Join(verif, "engine")
			outb, err := cmd.CombinedOutput()
			if err != nil {
				fails[i] = fmt.Sprintf("shard %d: %v\n%s", i, err, tail(string(outb), 3000))
			}
		}(i)
	}
	wg.Wait()
	for _, f := range fails {
		if f != "" {
			fmt.Fprintln(os.Stderr, f)
			die(2, "worker failed (engine error, not a property verdict)")
		}
	}

	// merge
	type merged struct {
		explore.Report
	}
	byH := map[string]*explore.Report{}
	var order []string
	states := map[string]map[uint64]struct{}{}
	for i := 0; i < n; i++ {
		b, err := os.ReadFile(filepath.Join(scratch, fmt.Sprintf("res.%d.json", i)))
		if err != nil {
			die(2, "missing shard result: %v", err)
		}
		var rps []*explore.Report
		if err := json.Unmarshal(b, &rps); err != nil {
			die(2, "bad shard result: %v", err)
		}
		for _, rp := range rps {
			m := byH[rp.Harness]
			if m == nil {
				m = &explore.Report{Property: rp.Property, Harness: rp.Harness, Outcomes: map[string]int64{}, CapsHit: map[string]int64{}, Exhaustive: true, Bound: rp.Bound, Notes: rp.Notes}
				byH[rp.Harness] = m
				order = append(order, rp.Harness)
				states[rp.Harness] = map[uint64]struct{}{}
			}
			m.Items += rp.Items
			m.Execs += rp.Execs
			m.Transitions += rp.Transitions
			m.Points += rp.Points
			m.Cases += rp.Cases
			m.Nontrivial += rp.Nontrivial
			m.ConflictExecs += rp.ConflictExecs
			m.PrunedExecs += rp.PrunedExecs
			if rp.MaxThreads > m.MaxThreads {
				m.MaxThreads = rp.MaxThreads
			}
			for k, v := range rp.Outcomes {
				m.Outcomes[k] += v
			}
			m.OutcomesCapped = m.OutcomesCapped || rp.OutcomesCapped
			for k, v := range rp.CapsHit {
				m.CapsHit[k] += v
			}
			m.Exhaustive = m.Exhaustive && rp.Exhaustive
			if len(m.Samples) < 6 {
				m.Samples = append(m.Samples, rp.Samples...)
			}
			m.Violations = append(m.Violations, rp.Violations...)
			m.EngineErrors = append(m.EngineErrors, rp.EngineErrors...)
			sf := filepath.Join(scratch, fmt.Sprintf("res.%d.json.%s.states", i, sanitize(rp.Harness)))
			if sb, err := os.ReadFile(sf); err == nil {
				for j := 0; j+8 <= len(sb); j += 8 {
					states[rp.Harness][binary.LittleEndian.Uint64(sb[j:])] = struct{}{}
				}
			}
		}
	}
	var kn []known
	if b, err := os.ReadFile(filepath.Join(verif, "known_findings.json")); err == nil {
		if err := json.Unmarshal(b, &kn); err != nil {
			die(2, "known_findings.json: %v", err)
		}
	}
	knownSig := map[string]known{}
	for _, k := range kn {
		if k.Status == "known" && k.Property == id {
			knownSig[k.Signature] = k
		}
	}

	exit := 0
	var engineErrs []string
	nviol := 0
	printedKnown := map[string]bool{}
	cov := map[string]interface{}{}
	var tot explore.Report
	tot.Exhaustive = true
	perH := []map[string]interface{}{}
	var samples []interface{}
	var rules []string
	outcomes := 0
	caps := map[string]int64{}
	var nstates int64
	for _, h := range order {
		m := byH[h]
		engineErrs = append(engineErrs, m.EngineErrors...)
		seen := map[string]bool{}
		for _, v := range m.Violations {
			if seen[v.Signature] {
				continue
			}
			seen[v.Signature] = true
			if k, ok := knownSig[v.Signature]; ok {
				if !printedKnown[v.Signature] {
					fmt.Printf("KNOWN-FINDING: property=%s %s [%s]\n", id, k.What, v.Signature)
					printedKnown[v.Signature] = true
				}
				continue
			}
			nviol++
			exit = 1
			msg := ""
			if len(v.Failures) > 0 {
				msg = v.Failures[0].Clause + ": " + v.Failures[0].Msg
			}
			fmt.Printf("VIOLATION property=%s replay=%s\n", id, v.File)
			fmt.Printf("  harness=%s item=%q cost=%d signature=%s\n  %s\n", v.Harness, v.Item, v.Cost, v.Signature, trunc(msg, 600))
		}
		tot.Execs += m.Execs
		tot.Transitions += m.Transitions
		tot.Cases += m.Cases
		tot.Nontrivial += m.Nontrivial
		tot.Items += m.Items
		tot.Exhaustive = tot.Exhaustive && m.Exhaustive
		nstates += int64(len(states[h]))
		outcomes += len(m.Outcomes)
		for k, v := range m.CapsHit {
			caps[h+":"+k] += v
		}
		samples = append(samples, m.Samples...)
		rules = append(rules, m.Notes...)
		top := []string{}
		for _, k := range explore.SortedOutcomes(m.Outcomes) {
			if len(top) < 12 {
				top = append(top, fmt.Sprintf("%s x%d", trunc(k, 80), m.Outcomes[k]))
			}
		}
		perH = append(perH, map[string]interface{}{"harness": h, "items": m.Items, "executions": m.Execs, "transitions": m.Transitions,
			"sequential_cases": m.Cases, "nontrivial": m.Nontrivial, "states": len(states[h]), "distinct_outcomes": len(m.Outcomes),
			"outcomes_sample": top, "bound": m.Bound, "exhaustive_within_bound": m.Exhaustive, "caps_hit": m.CapsHit,
			"max_threads": m.MaxThreads, "executions_with_thread_conflict": m.ConflictExecs, "executions_cut_at_visited_state": m.PrunedExecs})
	}
	if len(engineErrs) > 0 {
		for i, e := range engineErrs {
			if i < 5 {
				fmt.Fprintln(os.Stderr, "ENGINE-ERROR:", trunc(e, 500))
			}
		}
		die(2, "engine errors (replay divergence / unstable failure); no verdict")
	}
	if len(samples) > 8 {
		samples = samples[:8]
	}
	if len(samples) == 0 {
		samples = append(samples, "no sample recorded")
	}
	evals := tot.Execs + tot.Cases
	cov["evaluations"] = evals
	cov["distinct_nontrivial"] = tot.Nontrivial
	cov["rule"] = strings.Join(rules, " || ")
	cov["samples"] = samples
	cov["states"] = nstates
	cov["transitions"] = tot.Transitions
	cov["traces_validated_against_impl"] = tot.Execs
	cov["exhaustive"] = tot.Exhaustive
	cov["items"] = tot.Items
	cov["distinct_outcomes"] = outcomes
	cov["caps_hit"] = caps
	cov["harnesses"] = perH
	cov["race_monitor"] = map[string]bool{"all_explored_items": *tier == "thorough", "c06/refresh": id == "C06"}
	cov["explanation"] = "stateless exploration of the real implementation: every execution is an implementation trace, so traces_validated_against_impl == scheduled executions; states = distinct final happens-before fingerprints"
	ev := map[string]interface{}{
		"property_id": id, "tier": *tier, "seed": seed, "level": *level, "coverage": cov,
		"wall_s": time.Since(start).Seconds(), "violations": nviol,
		"assumptions": []string{"data-race freedom of the explored code between scheduling points, except for map accesses of the rewritten packages: the happens-before race monitor is on for every explored item in the thorough tier and for c06/refresh in both tiers",
			"the vrt shims implement Go's sync/chan/timer semantics", "values outside the stated alphabets and schedules above the deviation bound are not covered"},
	}
	if !*noEvidence {
		os.MkdirAll(filepath.Join(verif, "evidence"), 0o755)
		b, _ := json.MarshalIndent(ev, "", " ")
		if err := os.WriteFile(filepath.Join(verif, "evidence", id+".json"), b, 0o644); err != nil {
			die(2, "write evidence: %v", err)
		}
	}
	fmt.Printf("vcheck %s tier=%s: evaluations=%d (scheduled=%d sequential=%d) transitions=%d states=%d outcomes=%d exhaustive=%v caps=%v violations=%d wall=%.1fs\n",
		id, *tier, evals, tot.Execs, tot.Cases, tot.Transitions, nstates, outcomes, tot.Exhaustive, caps, nviol, time.Since(start).Seconds())
	os.Exit(exit)
}

var explorationLevel = map[string]bool{"C03": true, "C09": true, "C11": true, "C12": true, "C13": true, "C14": true, "C18": true, "C19": true}

func levelOf(id string) string {
	if explorationLevel[id] {
		return "exploration"
	}
	return "model_checking"
}

func build(verif, repo string) (scratch, bin string) {
	tmp := os.Getenv("TMPDIR")
	if tmp == "" {
		tmp = "/tmp"
	}
	scratch, err := os.MkdirTemp(tmp, "vcheck-")
	if err != nil {
		die(2, "%v", err)
	}
	args := []string{"-repo", repo, "-out", scratch, "-hooks", filepath.Join(verif, "hooks"), "-extra", filepath.Join(verif, "extra")}
	args = append(args, instrumented...)
	cmd := exec.Command(filepath.Join(verif, "bin", "vrewrite"), args...)
	cmd.Env = env()
	if out, err := cmd.CombinedOutput(); err != nil {
		os.RemoveAll(scratch)
		fmt.Fprintln(os.Stderr, string(out))
		die(2, "vrewrite failed: %v", err)
	}
	bin = filepath.Join(scratch, "vharness")
	cmd = exec.Command("go", "build", "-tags", "verif", "-overlay", filepath.Join(scratch, "overlay.json"), "-o", bin, "./cmd/vharness")
	cmd.Dir = filepath.Join(verif, "engine")
	cmd.Env = env()
	if out, err := cmd.CombinedOutput(); err != nil {
		os.RemoveAll(scratch)
		fmt.Fprintln(os.Stderr, tail(string(out), 6000))
		die(2, "harness build failed: %v", err)
	}
	return scratch, bin
}

func replay(verif, repo, file string) {
	scratch, bin := build(verif, repo)
	defer os.RemoveAll(scratch)
	cmd := exec.Command(bin, "replay", file)
	cmd.Env = append(env(), "GOMAXPROCS=1", "VERIF_ROOT="+verif, "VERIF_REPO="+repo)
	cmd.Stdout, cmd.Stderr = os.Stdout, os.Stderr
	if err := cmd.Run(); err != nil {
		if ee, ok := err.(*exec.ExitError); ok {
			os.RemoveAll(scratch)
			os.Exit(ee.ExitCode())
		}
		die(2, "%v", err)
	}
}

func tail(s string, n int) string {
	if len(s) > n {
		return s[len(s)-n:]
	}
	return s
}

func trunc(s string, n int) string {
	if len(s) > n {
		return s[:n] + "…"
	}
	return s
}

func sanitize(s string) string {
	b := []byte(s)
	for i, c := range b {
		if !(c >= 'a' && c <= 'z' || c >= 'A' && c <= 'Z' || c >= '0' && c <= '9') {
			b[i] = '_'
		}
	}
	return string(b)
}

var _ = sort.Strings
