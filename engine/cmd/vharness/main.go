// vharness is the harness binary built (with the overlay) from /repo's working tree.
package main

import (
	"encoding/json"
	"flag"
	"fmt"
	"os"
	"runtime"
	"runtime/debug"
	"runtime/pprof"
	"strings"
	"time"

	"verif/explore"
	"verif/harness/reg"

	_ "verif/harness/c01"
	_ "verif/harness/c03"
	_ "verif/harness/c05"
	_ "verif/harness/c06"
	_ "verif/harness/c07"
	_ "verif/harness/c09"
	_ "verif/harness/c10"
	_ "verif/harness/c11"
	_ "verif/harness/c12"
	_ "verif/harness/c13"
	_ "verif/harness/c14"
	"verif/harness/c15"
	_ "verif/harness/c16"
	_ "verif/harness/c18"
	_ "verif/harness/c19"
	_ "verif/harness/c20"
	_ "verif/harness/reactiveh"
	_ "verif/harness/serverh"
)

func find(prop, name string) []*reg.Harness {
	var hs []*reg.Harness
	for _, h := range reg.All {
		if h.Property == prop && (name == "" || h.Name == name) {
			hs = append(hs, h)
		}
	}
	return hs
}

func main() {
	if len(os.Args) < 2 {
		fmt.Fprintln(os.Stderr, "usage: vharness run|replay|list ...")
		os.Exit(2)
	}
	switch os.Args[1] {
	case "list":
		for _, h := range reg.All {
			fmt.Println(h.Property, h.Name, h.Level)
		}
	case "deep-parse":
		// a child process of the C15 harness: parse (and validate) query text nested <depth> levels deep with a small
		// maximal stack, so that unbounded recursion dies here and not in the harness (a stack overflow is fatal)
		c15.DeepParseChild(os.Args[2:])
		return
	case "run":
		fs := flag.NewFlagSet("run", flag.ExitOnError)
		prop := fs.String("prop", "", "property id")
		tier := fs.String("tier", "quick", "quick|thorough")
		shard := fs.Int("shard", 0, "")
		nshards := fs.Int("nshards", 1, "")
		bound := fs.Int("bound", -1, "deviation bound override")
		outDir := fs.String("out", "", "violation dir")
		resFile := fs.String("result", "", "result json file")
		deadline := fs.Int("deadline", 0, "seconds")
		only := fs.String("harness", "", "only this harness")
		fs.Parse(os.Args[2:])
		hs := find(*prop, *only)
		if len(hs) == 0 {
			fmt.Fprintln(os.Stderr, "no harness for", *prop)
			os.Exit(2)
		}
		var reports []*explore.Report
		for _, h := range hs {
			b := *bound
			if b < 0 {
				b = 2
				if *tier == "thorough" {
					b = 3
				}
				if h.Bounds[0] > 0 && *tier != "thorough" {
					b = h.Bounds[0]
				}
				if h.Bounds[1] > 0 && *tier == "thorough" {
					b = h.Bounds[1]
				}
			}
			o := explore.Options{Property: h.Property, Harness: h.Name, Tier: *tier, Bound: b, Shard: *shard, NShards: *nshards, OutDir: *outDir}
			if *deadline > 0 {
				o.Deadline = time.Now().Add(time.Duration(*deadline) * time.Second)
			}
			if *resFile != "" {
				o.StatesFile = fmt.Sprintf("%s.%s.states", *resFile, sanitize(h.Name))
			}
			rp := explore.NewReport(o)
			func() {
				// a panic that escapes an enumerating (non-scheduled) harness comes from the code under test: it is a
				// verdict about that code, not an engine error (the rest of this shard's enumeration is lost)
				defer func() {
					if p := recover(); p != nil {
						st := string(debug.Stack())
						where := "?"
						for _, ln := range strings.Split(st, "\n") {
							if strings.Contains(ln, "github.com/samsarahq/thunder/") && strings.Contains(ln, "(") {
								where = strings.TrimSpace(ln)
								if i := strings.Index(where, "("); i > 0 {
									where = where[:i]
								}
								break
							}
						}
						rp.AddViolation(&explore.Violation{Item: "panic while enumerating " + h.Name, Stable: true,
							Signature: strings.ToLower(h.Property) + "/panic/" + where,
							Failures:  []explore.Failure{{Clause: "no-panic", Msg: fmt.Sprintf("the code under test panicked: %v\n%s", p, st)}}})
						rp.Exhaustive = false
					}
				}()
				h.Run(rp, *tier)
			}()
			rp.Finish()
			rp.Notes = append(rp.Notes, h.Rule)
			reports = append(reports, rp)
		}
		if os.Getenv("VERIF_MEMSTATS") != "" {
			var ms runtime.MemStats
			runtime.GC()
			runtime.ReadMemStats(&ms)
			fmt.Fprintf(os.Stderr, "MEMSTATS heapalloc=%dMB sys=%dMB goroutines=%d\n", ms.HeapAlloc>>20, ms.Sys>>20, runtime.NumGoroutine())
			if f, err := os.Create("/tmp/gor.txt"); err == nil {
				pprof.Lookup("goroutine").WriteTo(f, 1)
				f.Close()
			}
			if f, err := os.Create("/tmp/heap.prof"); err == nil {
				pprof.WriteHeapProfile(f)
				f.Close()
			}
		}
		b, _ := json.Marshal(reports)
		if *resFile != "" {
			os.WriteFile(*resFile, b, 0o644)
		} else {
			os.Stdout.Write(b)
		}
	case "replay":
		b, err := os.ReadFile(os.Args[2])
		if err != nil {
			fmt.Fprintln(os.Stderr, err)
			os.Exit(2)
		}
		var v explore.Violation
		if err := json.Unmarshal(b, &v); err != nil {
			fmt.Fprintln(os.Stderr, err)
			os.Exit(2)
		}
		hs := find(v.Property, v.Harness)
		if len(hs) == 0 || hs[0].Item == nil {
			fmt.Fprintln(os.Stderr, "no replayable harness", v.Harness)
			os.Exit(2)
		}
		it := hs[0].Item(v.Item)
		x, res := explore.Replay(it, v.Choices)
		for _, e := range res.Trace {
			fmt.Printf("  [%s] %s #%d %s\n", e.T, e.Op, e.Obj, e.Note)
		}
		if res.Diverged != "" {
			fmt.Println("DIVERGED:", res.Diverged)
			os.Exit(2)
		}
		if x.Failed() {
			fmt.Printf("VIOLATION property=%s replay=%s\n", v.Property, os.Args[2])
			os.Exit(1)
		}
		fmt.Println("no violation on replay")
	}
}

func sanitize(s string) string {
	b := []byte(s)
	for i, c := range b {
		if !(c >= 'a' && c <= 'z' || c >= 'A' && c <= 'Z' || c >= '0' && c <= '9') {
			b[i] = '_'
		}
	}
	return string(b)
}
