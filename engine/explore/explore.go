// Package explore is the stateless deviation-bounded DFS over rt executions,
// plus the shared report/evidence plumbing used by every harness.
package explore

import (
	"encoding/binary"
	"encoding/json"
	"fmt"
	"os"
	"path/filepath"
	"regexp"
	"sort"
	"strings"
	"time"

	"vrt/rt"
)

// Exec is handed to a harness body for one execution.
type Exec struct {
	Item     string
	failures []Failure
	outcome  []string
	nontriv  bool
	Res      *rt.Result
	cleanups []func()
}

// Cleanup registers fn to run (outside the scheduler) after this execution, however it ends.
func (x *Exec) Cleanup(fn func()) { x.cleanups = append(x.cleanups, fn) }

type Failure struct {
	Clause    string `json:"clause"`
	Msg       string `json:"msg"`
	Signature string `json:"signature"`
}

// Fail records an oracle violation for this execution.
func (x *Exec) Fail(clause, sig, format string, a ...interface{}) {
	x.failures = append(x.failures, Failure{Clause: clause, Msg: fmt.Sprintf(format, a...), Signature: sig})
}

func (x *Exec) Failed() bool { return len(x.failures) > 0 }

// Outcome contributes to the distinct-outcome statistic (vacuity guard).
func (x *Exec) Outcome(format string, a ...interface{}) {
	x.outcome = append(x.outcome, fmt.Sprintf(format, a...))
}

func (x *Exec) Nontrivial() { x.nontriv = true }

// Item is one parameterisation of a harness: a closed program to explore.
type Item struct {
	Name string
	Body func(x *Exec)
	// Post judges the engine-level result (deadlock, panics). nil = default:
	// deadlock and uncaught panics are violations.
	Post     func(x *Exec, res *rt.Result)
	Bound    int // -1: use Options.Bound
	MaxSteps int
	MaxClock int
	// Sequential: run once with the default schedule only (ENUM-style item).
	Sequential bool
	// Split: distribute the depth-1 subtrees of this item over the shards
	// (otherwise the caller distributes whole items with Report.Mine).
	Split bool
	// NoCache disables happens-before state caching for this item.
	NoCache bool
	// Race turns on the happens-before race monitor for instrumented map accesses; every detected pair of unordered
	// conflicting accesses is a failure of clause "data-race".
	Race bool
}

type Options struct {
	Property   string
	Harness    string
	Tier       string
	Bound      int
	NoCache    bool
	Shard      int
	NShards    int
	OutDir     string
	Deadline   time.Time
	MaxExecs   int64
	StatesFile string
}

type Violation struct {
	Property  string       `json:"property"`
	Harness   string       `json:"harness"`
	Item      string       `json:"item"`
	Bound     int          `json:"bound"`
	Cost      int          `json:"cost"`
	Choices   []int        `json:"choices"`
	Failures  []Failure    `json:"failures"`
	Signature string       `json:"signature"`
	Trace     []rt.TraceEv `json:"trace,omitempty"`
	Stable    bool         `json:"stable"`
	File      string       `json:"file,omitempty"`
	Count     int64        `json:"count"`
}

type Report struct {
	Property       string           `json:"property"`
	Harness        string           `json:"harness"`
	Shard          int              `json:"shard"`
	Items          int64            `json:"items"`
	Execs          int64            `json:"execs"`
	Transitions    int64            `json:"transitions"`
	Points         int64            `json:"points"`
	Cases          int64            `json:"cases"`
	Nontrivial     int64            `json:"nontrivial"`
	States         int64            `json:"states"`
	Outcomes       map[string]int64 `json:"outcomes"`
	OutcomesCapped bool             `json:"outcomes_capped"`
	Samples        []interface{}    `json:"samples"`
	Violations     []*Violation     `json:"violations"`
	CapsHit        map[string]int64 `json:"caps_hit"`
	Exhaustive     bool             `json:"exhaustive"`
	Bound          int              `json:"bound"`
	EngineErrors   []string         `json:"engine_errors"`
	WallS          float64          `json:"wall_s"`
	Notes          []string         `json:"notes"`
	MaxThreads     int              `json:"max_threads"`
	ConflictExecs  int64            `json:"conflict_execs"`
	PrunedExecs    int64            `json:"pruned_execs"`

	states map[uint64]struct{}
	bySig  map[string]*Violation
	opts   Options
	start  time.Time
	node   int64
}

func NewReport(o Options) *Report {
	return &Report{Property: o.Property, Harness: o.Harness, Shard: o.Shard, Outcomes: map[string]int64{},
		CapsHit: map[string]int64{}, Exhaustive: true, Bound: o.Bound, states: map[uint64]struct{}{},
		bySig: map[string]*Violation{}, opts: o, start: time.Now()}
}

func (rp *Report) Cap(name string) {
	rp.CapsHit[name]++
	rp.Exhaustive = false
}

func (rp *Report) AddOutcome(s string) {
	if len(s) > 200 {
		s = s[:200]
	}
	if _, ok := rp.Outcomes[s]; !ok && len(rp.Outcomes) >= 400 {
		rp.OutcomesCapped = true
		return
	}
	rp.Outcomes[s]++
}

func (rp *Report) AddSample(v interface{}) {
	if len(rp.Samples) < 6 {
		rp.Samples = append(rp.Samples, v)
	}
}

func (rp *Report) AddState(h uint64) { rp.states[h] = struct{}{} }

func (rp *Report) TimeUp() bool {
	return !rp.opts.Deadline.IsZero() && time.Now().After(rp.opts.Deadline)
}

// Mine reports whether work unit k belongs to this shard.
func (rp *Report) Mine(k int64) bool {
	if rp.opts.NShards <= 1 {
		return true
	}
	h := uint64(k) * 0x9E3779B97F4A7C15
	h ^= h >> 29
	return int((h>>17)%uint64(rp.opts.NShards)) == rp.opts.Shard
}

// AddViolation registers a (sequential or scheduled) violation, deduplicated by signature.
func (rp *Report) AddViolation(v *Violation) {
	if v.Signature == "" && len(v.Failures) > 0 {
		v.Signature = v.Failures[0].Signature
		if v.Signature == "" {
			v.Signature = rp.Harness + "/" + v.Failures[0].Clause
		}
	}
	if old, ok := rp.bySig[v.Signature]; ok {
		old.Count++
		return
	}
	v.Property, v.Harness, v.Count = rp.Property, rp.Harness, 1
	rp.bySig[v.Signature] = v
	rp.Violations = append(rp.Violations, v)
	if rp.opts.OutDir != "" {
		os.MkdirAll(rp.opts.OutDir, 0o755)
		name := fmt.Sprintf("%s-s%d-%d.json", strings.ToLower(rp.Property), rp.Shard, len(rp.Violations))
		v.File = filepath.Join(rp.opts.OutDir, name)
		b, _ := json.MarshalIndent(v, "", " ")
		os.WriteFile(v.File, b, 0o644)
	}
}

func (rp *Report) Finish() {
	rp.WallS = time.Since(rp.start).Seconds()
	rp.States = int64(len(rp.states))
	if rp.opts.StatesFile != "" {
		buf := make([]byte, 0, 8*len(rp.states))
		for h := range rp.states {
			buf = binary.LittleEndian.AppendUint64(buf, h)
		}
		os.WriteFile(rp.opts.StatesFile, buf, 0o644)
	}
}

// VERIF_RACE=1 switches the map-access race monitor on for every explored item (diagnostic sweep).
var raceAll = os.Getenv("VERIF_RACE") == "1"

func defaultPost(x *Exec, res *rt.Result) {
	if res.Deadlock {
		x.Fail("deadlock", "", "blocked threads: %v", res.Blocked)
	}
	for _, p := range res.Panics {
		x.Fail("panic", "", "thread %s: %s", p.Thread, p.Value)
	}
}

func (rp *Report) runOnce(it *Item, prefix []int, fps []uint64, trace bool) (*Exec, *rt.Result) {
	return rp.runOnceV(it, prefix, fps, trace, nil)
}

func (rp *Report) runOnceV(it *Item, prefix []int, fps []uint64, trace bool, visit func(uint64, int) bool) (*Exec, *rt.Result) {
	x := &Exec{Item: it.Name}
	cfg := rt.Config{Prefix: prefix, PrefixFP: fps, MaxSteps: it.MaxSteps, MaxClock: it.MaxClock, Trace: trace, Visit: visit, Race: it.Race || raceAll}
	res := rt.Execute(cfg, func() { it.Body(x) })
	x.Res = res
	for _, rc := range res.Races {
		x.Fail("data-race", "race/"+rc.SiteA+"+"+rc.SiteB, "unsynchronised accesses to one %s: %s; %s (no happens-before order between them: a free-running process can die with 'concurrent map read and map write')", rc.Map, rc.First, rc.Second)
	}
	for _, fn := range x.cleanups {
		fn()
	}
	x.cleanups = nil
	if res.Diverged == "" && !res.StepCap && !res.ClockCap && !res.Pruned {
		if it.Post != nil {
			it.Post(x, res)
		} else {
			defaultPost(x, res)
		}
	}
	return x, res
}

// Explore runs the bounded DFS for one item.
func (rp *Report) Explore(it *Item) {
	bound := it.Bound
	if bound < 0 {
		bound = rp.opts.Bound
	}
	rp.Items++
	if it.Sequential {
		bound = 0
	}
	var rec func(prefix []int, fps []uint64, depth int)
	stop := false
	var visit func(uint64, int) bool
	if !it.NoCache && !rp.opts.NoCache && bound > 0 {
		cache := map[uint64]int8{}
		visit = func(key uint64, cost int) bool {
			if c, ok := cache[key]; ok && int(c) <= cost {
				return true
			}
			cache[key] = int8(cost)
			return false
		}
	}
	rec = func(prefix []int, fps []uint64, depth int) {
		if stop {
			return
		}
		if rp.TimeUp() {
			rp.Cap("deadline")
			stop = true
			return
		}
		if rp.opts.MaxExecs > 0 && rp.Execs >= rp.opts.MaxExecs {
			rp.Cap("max_execs")
			stop = true
			return
		}
		counted := true
		if it.Split && rp.opts.NShards > 1 {
			if depth == 0 {
				counted = rp.opts.Shard == 0
			} else if depth == 1 {
				k := rp.node
				rp.node++
				if !rp.Mine(k) {
					return
				}
			}
		}
		x, res := rp.runOnceV(it, prefix, fps, false, visit)
		if !counted && res.Diverged == "" {
			x.failures = nil
		}
		if res.Diverged != "" {
			rp.EngineErrors = append(rp.EngineErrors, fmt.Sprintf("%s: %s prefix=%v", it.Name, res.Diverged, prefix))
			stop = true
			return
		}
		if counted {
			rp.Execs++
		}
		rp.Transitions += int64(res.Steps)
		rp.Points += int64(len(res.Points))
		rp.AddState(res.HBFinal)
		if res.Threads > rp.MaxThreads {
			rp.MaxThreads = res.Threads
		}
		if res.Conflicts > 0 {
			rp.ConflictExecs++
		}
		if res.StepCap {
			rp.Cap("step_cap")
		}
		if res.ClockCap {
			rp.Cap("clock_cap")
		}
		if res.Pruned {
			rp.PrunedExecs++
		} else {
			if x.nontriv {
				rp.Nontrivial++
			}
			rp.AddOutcome(strings.Join(x.outcome, "|"))
		}
		choices := make([]int, len(res.Points))
		for i := range res.Points {
			choices[i] = res.Points[i].Chosen
		}
		if rp.Execs%9973 == 1 {
			rp.AddSample(map[string]interface{}{"item": it.Name, "choices": choices, "steps": res.Steps, "outcome": x.outcome})
		}
		if len(x.failures) > 0 {
			rp.confirm(it, x, res, choices, bound)
		}
		if bound == 0 {
			return
		}
		nfps := make([]uint64, len(res.Points))
		for i := range res.Points {
			nfps[i] = res.Points[i].FP
		}
		cost := 0
		for i := 0; i < len(res.Points); i++ {
			p := &res.Points[i]
			if i >= len(prefix) {
				for alt := 1; alt < p.N; alt++ {
					if cost+p.Cost(alt) > bound {
						continue
					}
					np := append(append(make([]int, 0, i+1), choices[:i]...), alt)
					rec(np, nfps[:i+1], depth+1)
					if stop {
						return
					}
				}
			}
			cost += p.Cost(p.Chosen)
		}
	}
	e0, t0, c0 := rp.Execs, time.Now(), rp.CapsHit["clock_cap"]+rp.CapsHit["step_cap"]
	rec(nil, nil, 0)
	if os.Getenv("VERIF_ITEMLOG") != "" {
		fmt.Fprintf(os.Stderr, "ITEM %-100s execs=%-8d caps=%d %.1fs\n", it.Name, rp.Execs-e0, rp.CapsHit["clock_cap"]+rp.CapsHit["step_cap"]-c0, time.Since(t0).Seconds())
	}
}

// addresses and goroutine numbers inside failure texts (stack traces carried by recovered panics) differ from run to
// run; two failures are the same observation if they agree after those are masked
var volatileText = regexp.MustCompile(`0x[0-9a-fA-F]+\??|goroutine \d+|\+0x[0-9a-f]+`)

func sameFailure(a, b Failure) bool {
	return a.Clause == b.Clause && a.Signature == b.Signature &&
		volatileText.ReplaceAllString(a.Msg, "#") == volatileText.ReplaceAllString(b.Msg, "#")
}

func sameFailures(a, b []Failure) bool {
	if len(a) != len(b) {
		return false
	}
	for i := range a {
		if !sameFailure(a[i], b[i]) {
			return false
		}
	}
	return true
}

// confirm re-runs a failing schedule 5 times; only a stable failure is reported.
func (rp *Report) confirm(it *Item, x *Exec, res *rt.Result, choices []int, bound int) {
	cost := 0
	for i := range res.Points {
		cost += res.Points[i].Cost(res.Points[i].Chosen)
	}
	v := &Violation{Item: it.Name, Bound: bound, Cost: cost, Choices: choices, Failures: x.failures, Stable: true}
	sig := x.failures[0].Signature
	if sig == "" {
		sig = rp.Harness + "/" + x.failures[0].Clause
	}
	if old, ok := rp.bySig[sig]; ok {
		old.Count++
		return
	}
	// Re-run the schedule five times without pruning. An execution that was cut at an
	// already-visited state reported only the failures up to the cut, so its failures must
	// be contained in (not equal to) what the complete re-run reports; the re-runs must agree.
	var full []Failure
	for i := 0; i < 5; i++ {
		x2, res2 := rp.runOnce(it, choices, nil, i == 0)
		ok := res2.Diverged == ""
		if ok && i == 0 {
			full = x2.failures
			for _, f := range x.failures {
				found := false
				for _, g := range full {
					if sameFailure(f, g) {
						found = true
					}
				}
				if !found {
					ok = false
				}
			}
			if !res.Pruned && !sameFailures(full, x.failures) {
				ok = false
			}
		} else if ok && !sameFailures(x2.failures, full) {
			ok = false
		}
		if !ok {
			rp.EngineErrors = append(rp.EngineErrors, fmt.Sprintf("%s: unstable failure %v vs %v (%s) choices=%v", it.Name, x.failures, x2.failures, res2.Diverged, choices))
			return
		}
		if i == 0 {
			v.Trace = res2.Trace
			if len(v.Trace) > 4000 {
				v.Trace = v.Trace[len(v.Trace)-4000:]
			}
		}
	}
	v.Failures = full
	v.Signature = sig
	rp.AddViolation(v)
}

// Replay re-executes one recorded schedule and returns the failures observed.
func Replay(it *Item, choices []int) (*Exec, *rt.Result) {
	rp := NewReport(Options{})
	return rp.runOnce(it, choices, nil, true)
}

func SortedOutcomes(m map[string]int64) []string {
	ks := make([]string, 0, len(m))
	for k := range m {
		ks = append(ks, k)
	}
	sort.Strings(ks)
	return ks
}
