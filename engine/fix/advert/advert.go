// Package advert models a schema as advertised by introspection JSON and
// generates queries from it (shared by the C14 and C09 harnesses).
package advert

import (
	"encoding/json"
	"fmt"
	"math"
	"sort"
	"strings"
)

// ---------- advertised schema (from introspection JSON only) ----------

type TypeRef struct {
	Kind   string   `json:"kind"`
	Name   string   `json:"name"`
	OfType *TypeRef `json:"ofType"`
}

type InputValue struct {
	Name string  `json:"name"`
	Type TypeRef `json:"type"`
}

type FieldDef struct {
	Name string       `json:"name"`
	Args []InputValue `json:"args"`
	Type TypeRef      `json:"type"`
}

type TypeDef struct {
	Kind          string                  `json:"kind"`
	Name          string                  `json:"name"`
	Fields        []FieldDef              `json:"fields"`
	InputFields   []InputValue            `json:"inputFields"`
	EnumValues    []struct{ Name string } `json:"enumValues"`
	PossibleTypes []TypeRef               `json:"possibleTypes"`
}

type Advertised struct {
	Types map[string]*TypeDef
	Query string
}

func Load(b []byte) (*Advertised, error) {
	var doc struct {
		Schema struct {
			QueryType struct{ Name string } `json:"queryType"`
			Types     []*TypeDef            `json:"types"`
		} `json:"__schema"`
	}
	if err := json.Unmarshal(b, &doc); err != nil {
		return nil, err
	}
	a := &Advertised{Types: map[string]*TypeDef{}, Query: doc.Schema.QueryType.Name}
	for _, t := range doc.Schema.Types {
		a.Types[t.Name] = t
		sort.Slice(t.Fields, func(i, j int) bool { return t.Fields[i].Name < t.Fields[j].Name })
	}
	return a, nil
}

func (r *TypeRef) Named() *TypeRef {
	for r.OfType != nil {
		r = r.OfType
	}
	return r
}

// literal renders a minimal valid GraphQL literal for an advertised input type.
func (a *Advertised) literal(r *TypeRef, depth int) string {
	switch r.Kind {
	case "NON_NULL":
		return a.literal(r.OfType, depth)
	case "LIST":
		return "[" + a.literal(r.OfType, depth) + "]"
	case "ENUM":
		return a.Types[r.Name].EnumValues[0].Name
	case "INPUT_OBJECT":
		var parts []string
		for _, f := range a.Types[r.Name].InputFields {
			if f.Type.Kind == "NON_NULL" || depth < 1 {
				parts = append(parts, f.Name+": "+a.literal(&f.Type, depth+1))
			}
		}
		return "{" + strings.Join(parts, ", ") + "}"
	}
	switch {
	case strings.HasPrefix(r.Name, "int"), strings.HasPrefix(r.Name, "uint"):
		return "1"
	case strings.HasPrefix(r.Name, "float"):
		return "1.5"
	case r.Name == "bool":
		return "true"
	case r.Name == "Time":
		return `"2020-01-02T03:04:05Z"`
	case r.Name == "bytes":
		return `"YQ=="`
	}
	return `"s"`
}

func (a *Advertised) Call(f *FieldDef) string {
	if len(f.Args) == 0 {
		return f.Name
	}
	var parts []string
	for _, arg := range f.Args {
		parts = append(parts, arg.Name+": "+a.literal(&arg.Type, 0))
	}
	return f.Name + "(" + strings.Join(parts, ", ") + ")"
}

func IsLeaf(t *TypeDef) bool { return t.Kind == "SCALAR" || t.Kind == "ENUM" }

// sel is a selection tree over the advertised schema.
type Sel struct {
	Alias  string
	Field  *FieldDef         // nil for __typename
	Sub    []*Sel            // object sub-selection
	OnType map[string][]*Sel // union: per member type
	Raw    string            // ill-formed fragment text (printed verbatim), no conformance info
}

func (a *Advertised) Print(ss []*Sel) string {
	var parts []string
	for _, s := range ss {
		if s.Raw != "" {
			parts = append(parts, s.Raw)
			continue
		}
		if s.Field == nil {
			parts = append(parts, s.Alias+": __typename")
			continue
		}
		txt := s.Alias + ": " + a.Call(s.Field)
		if s.Sub != nil {
			txt += " { " + a.Print(s.Sub) + " }"
		}
		if s.OnType != nil {
			var ks []string
			for k := range s.OnType {
				ks = append(ks, k)
			}
			sort.Strings(ks)
			txt += " { ut: __typename"
			for _, k := range ks {
				txt += " ... on " + k + " { " + a.Print(s.OnType[k]) + " }"
			}
			txt += " }"
		}
		parts = append(parts, txt)
	}
	return strings.Join(parts, " ")
}

// minimal returns a minimal valid selection for a field (scalars for objects, all members for unions).
func (a *Advertised) SelectField(f *FieldDef, alias string, depth int) *Sel {
	t := a.Types[f.Type.Named().Name]
	s := &Sel{Alias: alias, Field: f}
	switch t.Kind {
	case "OBJECT":
		s.Sub = a.Scalars(t, depth)
	case "UNION":
		s.OnType = map[string][]*Sel{}
		for _, pt := range t.PossibleTypes {
			s.OnType[pt.Name] = a.Scalars(a.Types[pt.Name], depth)
		}
	}
	return s
}

// scalars selects every leaf field of an object (and, while depth allows, its composite fields minimally).
func (a *Advertised) Scalars(t *TypeDef, depth int) []*Sel {
	var out []*Sel
	out = append(out, &Sel{Alias: "tn"})
	for i := range t.Fields {
		f := &t.Fields[i]
		ft := a.Types[f.Type.Named().Name]
		if IsLeaf(ft) {
			out = append(out, &Sel{Alias: f.Name, Field: f})
		} else if depth > 0 {
			out = append(out, a.SelectField(f, f.Name, depth-1))
		}
	}
	return out
}

// ---------- conformance ----------

func scalarOK(name string, v interface{}) bool {
	switch {
	case strings.HasPrefix(name, "int"), strings.HasPrefix(name, "uint"):
		f, ok := v.(float64)
		return ok && f == math.Trunc(f)
	case strings.HasPrefix(name, "float"):
		_, ok := v.(float64)
		return ok
	case name == "bool":
		_, ok := v.(bool)
		return ok
	}
	_, ok := v.(string)
	return ok
}

func (a *Advertised) Conform(r *TypeRef, s *Sel, v interface{}, path string, listEntry bool) string {
	switch r.Kind {
	case "NON_NULL":
		if v == nil {
			if listEntry {
				return ""
			}
			return path + ": null for a non-null type"
		}
		return a.Conform(r.OfType, s, v, path, false)
	}
	if v == nil {
		return ""
	}
	switch r.Kind {
	case "LIST":
		l, ok := v.([]interface{})
		if !ok {
			return fmt.Sprintf("%s: %T where a list is advertised", path, v)
		}
		for i, el := range l {
			if e := a.Conform(r.OfType, s, el, fmt.Sprintf("%s[%d]", path, i), true); e != "" {
				return e
			}
		}
		return ""
	case "SCALAR":
		if !scalarOK(r.Name, v) {
			return fmt.Sprintf("%s: %v (%T) is not a JSON value of scalar %s", path, v, v, r.Name)
		}
		return ""
	case "ENUM":
		str, ok := v.(string)
		if !ok {
			return fmt.Sprintf("%s: %v is not an enum string", path, v)
		}
		for _, ev := range a.Types[r.Name].EnumValues {
			if ev.Name == str {
				return ""
			}
		}
		return fmt.Sprintf("%s: %q is not among the advertised values of %s", path, str, r.Name)
	case "OBJECT":
		return a.ConformObject(a.Types[r.Name], s.Sub, v, path)
	case "UNION":
		m, ok := v.(map[string]interface{})
		if !ok {
			return fmt.Sprintf("%s: %T where a union object is advertised", path, v)
		}
		tn, _ := m["ut"].(string)
		sub, ok := s.OnType[tn]
		if !ok {
			// a possible type the query has no fragment for: only the union's own __typename is selected on it
			possible := false
			for _, pt := range a.Types[r.Name].PossibleTypes {
				possible = possible || pt.Name == tn
			}
			if !possible {
				return fmt.Sprintf("%s: __typename %q is not a possible type of %s", path, tn, r.Name)
			}
			sub = []*Sel{}
		}
		rest := map[string]interface{}{}
		for k, x := range m {
			if k != "ut" {
				rest[k] = x
			}
		}
		return a.ConformObject(a.Types[tn], sub, rest, path)
	}
	return path + ": unknown advertised kind " + r.Kind
}

func (a *Advertised) ConformObject(t *TypeDef, ss []*Sel, v interface{}, path string) string {
	m, ok := v.(map[string]interface{})
	if !ok {
		return fmt.Sprintf("%s: %T where object %s is advertised", path, v, t.Name)
	}
	want := map[string]bool{}
	for _, s := range ss {
		want[s.Alias] = true
		x, present := m[s.Alias]
		if !present {
			return fmt.Sprintf("%s: selected field %q is missing from the response", path, s.Alias)
		}
		if s.Field == nil {
			if x != t.Name {
				return fmt.Sprintf("%s.%s: __typename %v, want %s", path, s.Alias, x, t.Name)
			}
			continue
		}
		if e := a.Conform(&s.Field.Type, s, x, path+"."+s.Alias, false); e != "" {
			return e
		}
	}
	for k := range m {
		if !want[k] && k != "__key" {
			return fmt.Sprintf("%s: unselected key %q in the response", path, k)
		}
	}
	return ""
}
