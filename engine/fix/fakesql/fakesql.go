// Package fakesql is an in-memory database/sql driver that understands exactly
// the statement shapes sqlgen emits, with SQL three-valued NULL logic. It logs
// every statement and reports committed row changes (the change log).
package fakesql

import (
	"bytes"
	"database/sql"
	"database/sql/driver"
	"errors"
	"fmt"
	"io"
	"strings"
	"sync"
	"sync/atomic"
	"time"
	"unicode"

	"github.com/samsarahq/thunder/sqlgen"
	"vrt/rt"
)

type Stmt struct {
	SQL  string
	Args []driver.Value
}

// Change is one committed row change; Before/After are full rows in column order.
type Change struct {
	Table         string
	Before, After []driver.Value
}

type Table struct {
	Name    string
	Cols    []string
	Primary []bool
	AutoInc bool
	Rows    [][]driver.Value
	nextID  int64
}

type DB struct {
	Tables   map[string]*Table
	Log      []Stmt
	OnCommit func(changes []Change)
	FailNext error // the next statement fails with this error
	// MetaCols: what information_schema reports as the column order of a table (default: the table's own order)
	MetaCols map[string][]string
	// FailMeta: information_schema queries fail with this error (e.g. driver.ErrBadConn: the pooled connection is gone)
	FailMeta error
	// SlowSelect: a SELECT is in flight for one scheduling step before it reads the table
	SlowSelect bool
	pending    []Change
	inTx       bool
	txOwner    *conn
	// Isolate: reads on other connections do not see the open transaction's writes
	Isolate  bool
	snapshot map[string][][]driver.Value
	id       string
	handles  []*sql.DB
}

func New() *DB { return &DB{Tables: map[string]*Table{}} }

// AddTable creates a table mirroring a registered sqlgen table.
func (d *DB) AddTable(t *sqlgen.Table) *Table {
	ft := &Table{Name: t.Name, AutoInc: t.PrimaryKeyType == sqlgen.AutoIncrement, nextID: 1}
	for _, c := range t.Columns {
		ft.Cols = append(ft.Cols, c.Name)
		ft.Primary = append(ft.Primary, c.Primary)
	}
	d.Tables[t.Name] = ft
	return ft
}

var (
	dbSeq     int64
	instMu    sync.Mutex
	instances = map[string]*DB{}
)

func init() { sql.Register("fakesql", &drv{}) }

// Open returns a *sql.DB served by d. Call Close when the execution is over.
func (d *DB) Open() *sql.DB {
	d.id = fmt.Sprint(atomic.AddInt64(&dbSeq, 1))
	instMu.Lock()
	instances[d.id] = d
	instMu.Unlock()
	db, err := sql.Open("fakesql", d.id)
	if err != nil {
		panic(err)
	}
	d.handles = append(d.handles, db)
	return db
}

// Close releases the instance and its sql.DB handles (and their background goroutines).
func (d *DB) Close() {
	instMu.Lock()
	delete(instances, d.id)
	instMu.Unlock()
	for _, h := range d.handles {
		h.Close()
	}
	d.handles = nil
}

func (t *Table) col(name string) int {
	for i, c := range t.Cols {
		if c == name {
			return i
		}
	}
	return -1
}

func cloneRow(r []driver.Value) []driver.Value { return append([]driver.Value{}, r...) }

// ---- values ----

func norm(v driver.Value) interface{} {
	switch x := v.(type) {
	case bool:
		if x {
			return int64(1)
		}
		return int64(0)
	case []byte:
		return string(x)
	case int:
		return int64(x)
	case int32:
		return int64(x)
	}
	return v
}

// Eq is SQL equality on non-NULL values.
func Eq(a, b driver.Value) bool {
	x, y := norm(a), norm(b)
	switch p := x.(type) {
	case int64:
		switch q := y.(type) {
		case int64:
			return p == q
		case float64:
			return float64(p) == q
		}
	case float64:
		switch q := y.(type) {
		case int64:
			return p == float64(q)
		case float64:
			return p == q
		}
	case string:
		if q, ok := y.(string); ok {
			return p == q
		}
	case time.Time:
		if q, ok := y.(time.Time); ok {
			return p.Equal(q)
		}
	}
	return false
}

// ---- WHERE expressions with three-valued logic ----

type tri int8

const (
	F tri = iota
	U
	T
)

type expr interface {
	eval(t *Table, row []driver.Value) tri
}

type cmp struct {
	col  string
	op   string // "=", "IS", "IN"
	args []driver.Value
}
type and struct{ l, r expr }
type or struct{ l, r expr }

func (c *cmp) eval(t *Table, row []driver.Value) tri {
	i := t.col(c.col)
	if i < 0 {
		return U
	}
	v := row[i]
	switch c.op {
	case "IS":
		if c.args[0] == nil {
			if v == nil {
				return T
			}
			return F
		}
		if v == nil {
			return F
		}
		if Eq(v, c.args[0]) {
			return T
		}
		return F
	case "=":
		if v == nil || c.args[0] == nil {
			return U
		}
		if Eq(v, c.args[0]) {
			return T
		}
		return F
	case "IN":
		if v == nil {
			return U
		}
		sawNull := false
		for _, a := range c.args {
			if a == nil {
				sawNull = true
			} else if Eq(v, a) {
				return T
			}
		}
		if sawNull {
			return U
		}
		return F
	}
	return U
}

func (a *and) eval(t *Table, row []driver.Value) tri {
	l, r := a.l.eval(t, row), a.r.eval(t, row)
	if l < r {
		return l
	}
	return r
}

func (o *or) eval(t *Table, row []driver.Value) tri {
	l, r := o.l.eval(t, row), o.r.eval(t, row)
	if l > r {
		return l
	}
	return r
}

// Conjuncts returns, for each top-level disjunct of e, the list of (column, value)
// equalities that every row selected through that disjunct must satisfy.
func Disjuncts(e expr) [][]Cond {
	switch x := e.(type) {
	case *or:
		return append(Disjuncts(x.l), Disjuncts(x.r)...)
	case *and:
		var out [][]Cond
		for _, l := range Disjuncts(x.l) {
			for _, r := range Disjuncts(x.r) {
				out = append(out, append(append([]Cond{}, l...), r...))
			}
		}
		return out
	case *cmp:
		if x.op == "IN" {
			var out [][]Cond
			for _, a := range x.args {
				out = append(out, []Cond{{x.col, a}})
			}
			return out
		}
		return [][]Cond{{{x.col, x.args[0]}}}
	}
	return [][]Cond{{}}
}

type Cond struct {
	Col string
	Val driver.Value
}

// ---- tokenizer / parser ----

type parser struct {
	toks []string
	pos  int
	args []driver.Value
	argi int
}

func tokenize(s string) []string {
	var toks []string
	i := 0
	for i < len(s) {
		c := rune(s[i])
		switch {
		case unicode.IsSpace(c):
			i++
		case c == '(' || c == ')' || c == ',' || c == '?' || c == '=' || c == '*':
			toks = append(toks, string(c))
			i++
		default:
			j := i
			for j < len(s) && !unicode.IsSpace(rune(s[j])) && !strings.ContainsRune("(),?=*", rune(s[j])) {
				j++
			}
			toks = append(toks, s[i:j])
			i = j
		}
	}
	return toks
}

func (p *parser) peek() string {
	if p.pos < len(p.toks) {
		return p.toks[p.pos]
	}
	return ""
}
func (p *parser) next() string       { t := p.peek(); p.pos++; return t }
func (p *parser) isKw(k string) bool { return strings.EqualFold(p.peek(), k) }
func (p *parser) accept(k string) bool {
	if p.isKw(k) {
		p.pos++
		return true
	}
	return false
}
func (p *parser) expect(k string) error {
	if !p.accept(k) {
		return fmt.Errorf("fakesql: expected %q, found %q", k, p.peek())
	}
	return nil
}
func (p *parser) arg() (driver.Value, error) {
	if p.argi >= len(p.args) {
		return nil, errors.New("fakesql: not enough arguments")
	}
	v := p.args[p.argi]
	p.argi++
	return v, nil
}

func (p *parser) parseOr() (expr, error) {
	l, err := p.parseAnd()
	if err != nil {
		return nil, err
	}
	for p.accept("OR") {
		r, err := p.parseAnd()
		if err != nil {
			return nil, err
		}
		l = &or{l, r}
	}
	return l, nil
}

func (p *parser) parseAnd() (expr, error) {
	l, err := p.parseFactor()
	if err != nil {
		return nil, err
	}
	for p.accept("AND") {
		r, err := p.parseFactor()
		if err != nil {
			return nil, err
		}
		l = &and{l, r}
	}
	return l, nil
}

func (p *parser) parseFactor() (expr, error) {
	if p.accept("(") {
		e, err := p.parseOr()
		if err != nil {
			return nil, err
		}
		return e, p.expect(")")
	}
	col := p.next()
	switch {
	case p.accept("="):
		if err := p.expect("?"); err != nil {
			return nil, err
		}
		a, err := p.arg()
		return &cmp{col, "=", []driver.Value{a}}, err
	case p.accept("IS"):
		if err := p.expect("?"); err != nil {
			return nil, err
		}
		a, err := p.arg()
		return &cmp{col, "IS", []driver.Value{a}}, err
	case p.accept("IN"):
		if err := p.expect("("); err != nil {
			return nil, err
		}
		c := &cmp{col: col, op: "IN"}
		for {
			if err := p.expect("?"); err != nil {
				return nil, err
			}
			a, err := p.arg()
			if err != nil {
				return nil, err
			}
			c.args = append(c.args, a)
			if !p.accept(",") {
				break
			}
		}
		return c, p.expect(")")
	}
	return nil, fmt.Errorf("fakesql: unsupported predicate near %q", col)
}

// Parsed is the structure of one statement (used by the confinement monitor).
type Parsed struct {
	Kind    string // SELECT COUNT INSERT UPSERT UPDATE DELETE META
	Table   string
	Cols    []string         // SELECT list / INSERT column list / UPDATE SET columns
	Rows    [][]driver.Value // INSERT rows / UPDATE set values (one row)
	Where   expr
	Limit   int
	OrderBy string
}

func Parse(s string, args []driver.Value) (*Parsed, error) {
	p := &parser{toks: tokenize(s), args: args}
	out := &Parsed{}
	idents := func() ([]string, error) {
		var cs []string
		for {
			cs = append(cs, p.next())
			if !p.accept(",") {
				return cs, nil
			}
		}
	}
	where := func() error {
		if p.accept("WHERE") {
			e, err := p.parseOr()
			if err != nil {
				return err
			}
			out.Where = e
		}
		return nil
	}
	switch {
	case p.accept("SELECT"):
		if p.accept("COUNT") {
			out.Kind = "COUNT"
			p.expect("(")
			p.expect("*")
			p.expect(")")
		} else {
			out.Kind = "SELECT"
			cs, _ := idents()
			out.Cols = cs
		}
		if err := p.expect("FROM"); err != nil {
			return nil, err
		}
		out.Table = p.next()
		if out.Table == "information_schema.columns" {
			out.Kind = "META"
			return out, nil
		}
		if p.accept("FORCE") || p.accept("USE") {
			p.expect("INDEX")
			for p.next() != ")" && p.peek() != "" {
			}
		}
		if err := where(); err != nil {
			return nil, err
		}
		if p.accept("ORDER") {
			p.expect("BY")
			out.OrderBy = p.next()
			if p.isKw("ASC") || p.isKw("DESC") {
				out.OrderBy += " " + strings.ToUpper(p.next())
			}
		}
		if p.accept("LIMIT") {
			fmt.Sscan(p.next(), &out.Limit)
		}
		if p.accept("FOR") {
			p.expect("UPDATE")
		}
	case p.accept("INSERT"):
		out.Kind = "INSERT"
		p.expect("INTO")
		out.Table = p.next()
		if p.accept("(") {
			cs, _ := idents()
			out.Cols = cs
			p.expect(")")
			p.expect("VALUES")
			for {
				p.expect("(")
				var row []driver.Value
				for {
					if err := p.expect("?"); err != nil {
						return nil, err
					}
					a, err := p.arg()
					if err != nil {
						return nil, err
					}
					row = append(row, a)
					if !p.accept(",") {
						break
					}
				}
				p.expect(")")
				out.Rows = append(out.Rows, row)
				if !p.accept(",") {
					break
				}
			}
		}
		if p.accept("ON") {
			out.Kind = "UPSERT"
			p.pos = len(p.toks)
		}
	case p.accept("UPDATE"):
		out.Kind = "UPDATE"
		out.Table = p.next()
		if p.accept("SET") {
			var row []driver.Value
			for {
				out.Cols = append(out.Cols, p.next())
				p.expect("=")
				p.expect("?")
				a, err := p.arg()
				if err != nil {
					return nil, err
				}
				row = append(row, a)
				if !p.accept(",") {
					break
				}
			}
			out.Rows = [][]driver.Value{row}
		}
		if err := where(); err != nil {
			return nil, err
		}
	case p.accept("DELETE"):
		out.Kind = "DELETE"
		p.expect("FROM")
		out.Table = p.next()
		if err := where(); err != nil {
			return nil, err
		}
	default:
		return nil, fmt.Errorf("fakesql: unsupported statement %q", s)
	}
	if p.pos < len(p.toks) {
		return nil, fmt.Errorf("fakesql: trailing tokens %v in %q", p.toks[p.pos:], s)
	}
	if p.argi != len(args) {
		return nil, fmt.Errorf("fakesql: %d arguments for %d placeholders in %q", len(args), p.argi, s)
	}
	return out, nil
}

func (d *DB) matches(t *Table, ps *Parsed, row []driver.Value) bool {
	return ps.Where == nil || ps.Where.eval(t, row) == T
}

// Select evaluates a parsed SELECT directly (reference evaluation for oracles).
func (d *DB) Select(ps *Parsed) [][]driver.Value { return d.selectFrom(ps, false) }

func (d *DB) selectFrom(ps *Parsed, snapshot bool) [][]driver.Value {
	t := d.Tables[ps.Table]
	var out [][]driver.Value
	src := t.Rows
	if snapshot {
		src = d.snapshot[ps.Table]
	}
	for _, r := range src {
		if d.matches(t, ps, r) {
			out = append(out, cloneRow(r))
		}
	}
	return out
}

func (d *DB) samePK(t *Table, a, b []driver.Value) bool {
	for i, p := range t.Primary {
		if p && !(a[i] != nil && b[i] != nil && Eq(a[i], b[i])) {
			return false
		}
	}
	return true
}

func (d *DB) exec(s string, args []driver.Value) (driver.Result, error) {
	d.Log = append(d.Log, Stmt{s, args})
	if d.FailNext != nil {
		err := d.FailNext
		d.FailNext = nil
		return nil, err
	}
	ps, err := Parse(s, args)
	if err != nil {
		return nil, err
	}
	if d.SlowSelect && ps.Kind == "SELECT" {
		rt.Yield()
	}
	t := d.Tables[ps.Table]
	if t == nil {
		return nil, fmt.Errorf("fakesql: unknown table %s", ps.Table)
	}
	var changes []Change
	var affected, lastID int64
	switch ps.Kind {
	case "INSERT", "UPSERT":
		for _, vals := range ps.Rows {
			row := make([]driver.Value, len(t.Cols))
			for i, c := range ps.Cols {
				j := t.col(c)
				if j < 0 {
					return nil, fmt.Errorf("fakesql: unknown column %s", c)
				}
				row[j] = vals[i]
			}
			if t.AutoInc {
				for i, p := range t.Primary {
					if p && row[i] == nil {
						row[i] = t.nextID
						lastID = t.nextID
						t.nextID++
					}
				}
			}
			dup := -1
			for i, r := range t.Rows {
				if d.samePK(t, r, row) {
					dup = i
				}
			}
			switch {
			case dup >= 0 && ps.Kind == "INSERT":
				return nil, fmt.Errorf("fakesql: duplicate primary key in %s", t.Name)
			case dup >= 0:
				changes = append(changes, Change{t.Name, cloneRow(t.Rows[dup]), cloneRow(row)})
				t.Rows[dup] = row
			default:
				changes = append(changes, Change{t.Name, nil, cloneRow(row)})
				t.Rows = append(t.Rows, row)
			}
			affected++
		}
	case "UPDATE":
		for i, r := range t.Rows {
			if !d.matches(t, ps, r) {
				continue
			}
			nr := cloneRow(r)
			for k, c := range ps.Cols {
				nr[t.col(c)] = ps.Rows[0][k]
			}
			changes = append(changes, Change{t.Name, cloneRow(r), cloneRow(nr)})
			t.Rows[i] = nr
			affected++
		}
	case "DELETE":
		var keep [][]driver.Value
		for _, r := range t.Rows {
			if d.matches(t, ps, r) {
				changes = append(changes, Change{t.Name, cloneRow(r), nil})
				affected++
			} else {
				keep = append(keep, r)
			}
		}
		t.Rows = keep
	default:
		return nil, fmt.Errorf("fakesql: %s is not an exec statement", ps.Kind)
	}
	if d.inTx {
		d.pending = append(d.pending, changes...)
	} else if d.OnCommit != nil && len(changes) > 0 {
		d.OnCommit(changes)
	}
	return result{lastID, affected}, nil
}

type result struct{ id, n int64 }

func (r result) LastInsertId() (int64, error) { return r.id, nil }
func (r result) RowsAffected() (int64, error) { return r.n, nil }

func (d *DB) query(s string, args []driver.Value) (driver.Rows, error) {
	return d.queryAs(s, args, false)
}

func (d *DB) queryAs(s string, args []driver.Value, snapshot bool) (driver.Rows, error) {
	d.Log = append(d.Log, Stmt{s, args})
	if d.FailNext != nil {
		err := d.FailNext
		d.FailNext = nil
		return nil, err
	}
	ps, err := Parse(s, args)
	if err != nil {
		return nil, err
	}
	if ps.Kind == "META" && d.FailMeta != nil {
		return nil, d.FailMeta
	}
	if ps.Kind == "META" {
		// SELECT column_name FROM information_schema.columns WHERE table_schema = ? AND table_name = ? ...
		name, _ := args[len(args)-1].(string)
		t := d.Tables[name]
		rs := &rows{cols: []string{"column_name"}}
		if t != nil {
			cols := t.Cols
			if mc := d.MetaCols[name]; mc != nil {
				cols = mc
			}
			for _, c := range cols {
				rs.data = append(rs.data, []driver.Value{c})
			}
		}
		return rs, nil
	}
	t := d.Tables[ps.Table]
	if t == nil {
		return nil, fmt.Errorf("fakesql: unknown table %s", ps.Table)
	}
	sel := d.selectFrom(ps, snapshot)
	if ps.Kind == "COUNT" {
		return &rows{cols: []string{"COUNT(*)"}, data: [][]driver.Value{{int64(len(sel))}}}, nil
	}
	if ps.Limit > 0 && len(sel) > ps.Limit {
		sel = sel[:ps.Limit]
	}
	rs := &rows{cols: ps.Cols}
	for _, r := range sel {
		out := make([]driver.Value, len(ps.Cols))
		for i, c := range ps.Cols {
			j := t.col(c)
			if j < 0 {
				return nil, fmt.Errorf("fakesql: unknown column %s", c)
			}
			out[i] = r[j]
			if b, ok := out[i].([]byte); ok {
				out[i] = bytes.Clone(b)
			}
		}
		rs.data = append(rs.data, out)
	}
	return rs, nil
}

type rows struct {
	cols []string
	data [][]driver.Value
	i    int
}

func (r *rows) Columns() []string { return r.cols }
func (r *rows) Close() error      { return nil }
func (r *rows) Next(dest []driver.Value) error {
	if r.i >= len(r.data) {
		return io.EOF
	}
	copy(dest, r.data[r.i])
	r.i++
	return nil
}

// ---- driver plumbing ----

type drv struct{}

func (x *drv) Open(dsn string) (driver.Conn, error) {
	instMu.Lock()
	d := instances[dsn]
	instMu.Unlock()
	if d == nil {
		return nil, errors.New("fakesql: instance closed")
	}
	return &conn{d}, nil
}

type conn struct{ d *DB }

func (c *conn) Prepare(q string) (driver.Stmt, error) { return &stmt{c.d, q, c}, nil }
func (c *conn) Close() error                          { return nil }
func (c *conn) Begin() (driver.Tx, error) {
	d := c.d
	if d.inTx {
		return nil, errors.New("fakesql: nested transaction")
	}
	d.inTx = true
	d.txOwner = c
	d.pending = nil
	d.snapshot = map[string][][]driver.Value{}
	for n, t := range d.Tables {
		var cp [][]driver.Value
		for _, r := range t.Rows {
			cp = append(cp, cloneRow(r))
		}
		d.snapshot[n] = cp
	}
	return &tx{d}, nil
}

type tx struct{ d *DB }

func (t *tx) Commit() error {
	d := t.d
	d.inTx = false
	ch := d.pending
	d.pending = nil
	if d.OnCommit != nil && len(ch) > 0 {
		d.OnCommit(ch)
	}
	return nil
}

func (t *tx) Rollback() error {
	d := t.d
	if !d.inTx {
		return nil
	}
	d.inTx = false
	d.pending = nil
	for n, rs := range d.snapshot {
		d.Tables[n].Rows = rs
	}
	return nil
}

type stmt struct {
	d *DB
	q string
	c *conn
}

func (s *stmt) Close() error                                    { return nil }
func (s *stmt) NumInput() int                                   { return -1 }
func (s *stmt) Exec(args []driver.Value) (driver.Result, error) { return s.d.exec(s.q, args) }
func (s *stmt) Query(args []driver.Value) (driver.Rows, error) {
	// read isolation: while a transaction is open, statements on other connections see the rows as they were
	// before it began (no dirty reads); the transaction's own connection sees its uncommitted writes
	return s.d.queryAs(s.q, args, s.d.inTx && s.d.txOwner != s.c && s.d.Isolate)
}
