// Package fedfix builds one domain either as a single server (monolith) or split
// over several federated services with a given assignment of fields to services.
package fedfix

import (
	"context"
	"fmt"
	"sort"
	"strings"

	"github.com/samsarahq/thunder/federation"
	"github.com/samsarahq/thunder/graphql"
	"github.com/samsarahq/thunder/graphql/schemabuilder"
	"vrt/rt"
	"vrt/vchan"
)

type User struct {
	Id    int64
	OrgId int64
	Name  string
}
type Device struct {
	Id    int64
	OrgId int64
	IsOn  bool
}
type Admin struct {
	Id    int64
	Power string
}
type Everyone struct {
	schemabuilder.Union
	*User
	*Admin
}

// UserIdKey is the key input type of the services that identify a user by id alone.
type UserIdKey struct{ Id int64 }

// StrictKeys returns a description of the first key object, in a federation hop received by a service, that carries
// a field the service's own key input type does not declare ("" if there is none). thunder's own argument parser
// ignores unknown input fields, so validating the sub-query does not show them.
func StrictKeys(schema *graphql.Schema, rq *graphql.Query) string {
	q, _ := schema.Query.(*graphql.Object)
	if q == nil || rq.SelectionSet == nil {
		return ""
	}
	for _, top := range rq.SelectionSet.Selections {
		if top.Name != "_federation" || top.SelectionSet == nil || q.Fields["_federation"] == nil {
			continue
		}
		fed, _ := q.Fields["_federation"].Type.(*graphql.Object)
		if nn, ok := q.Fields["_federation"].Type.(*graphql.NonNull); ok {
			fed, _ = nn.Type.(*graphql.Object)
		}
		if fed == nil {
			continue
		}
		for _, hop := range top.SelectionSet.Selections {
			f := fed.Fields[hop.Name]
			if f == nil {
				continue
			}
			var t graphql.Type = f.Args["keys"]
			for t != nil {
				switch x := t.(type) {
				case *graphql.NonNull:
					t = x.Type
					continue
				case *graphql.List:
					t = x.Type
					continue
				}
				break
			}
			in, _ := t.(*graphql.InputObject)
			keys, _ := hop.UnparsedArgs["keys"].([]interface{})
			if in == nil {
				continue
			}
			for _, k := range keys {
				m, _ := k.(map[string]interface{})
				for name := range m {
					if _, ok := in.InputFields[name]; !ok {
						return fmt.Sprintf("%s was sent a key with field %q, which its key input type %s does not declare", hop.Name, name, in.Name)
					}
				}
			}
		}
	}
	return ""
}

type PickReport struct {
	Ok     bool
	Picked int64
}

type Data struct {
	Users   []*User
	Devices []*Device
	Admins  []*Admin
	Picked  int // how often the pickUser mutation ran
}

func DataSets() []*Data {
	return []*Data{
		{Users: []*User{{1, 10, "ann"}, {2, 10, "bob"}, {3, 20, "cy"}},
			Devices: []*Device{{100, 10, true}, {101, 10, false}, {102, 30, true}},
			Admins:  []*Admin{{7, "fly"}}},
		{Users: []*User{{5, 50, "solo"}}, Devices: nil, Admins: nil},
	}
}

// BigKeyData has neighbouring ids beyond the float64-exact range: a key that travels as a float names the wrong object.
func BigKeyData() *Data {
	return &Data{Users: []*User{{9007199254740993, 10, "odd"}, {9007199254740992, 20, "even"}}, Devices: []*Device{{9007199254740995, 10, true}}, Admins: nil}
}

func (d *Data) user(id int64) *User {
	for _, u := range d.Users {
		if u.Id == id {
			return u
		}
	}
	return nil
}

// Extra (computed) fields; each is assigned to exactly one service.
var ExtraFields = []string{"User.email", "User.age", "User.secret", "User.device", "User.devices", "User.boss", "Device.temp", "Device.owner", "Device.tags", "Admin.hiding"}

// Root fields; each is assigned to exactly one service.
var RootFields = []string{"users", "user", "devices", "everyone", "admins", "nobody", "noUsers"}

// "boom" is an optional failing root field (only registered when the assignment names it).

// Assignment maps every extra and root field to a service name, or to several ("s1+s2": each of them serves it).
type Assignment map[string]string

// On reports whether service serves field f.
func (a Assignment) On(f, service string) bool {
	return strings.Contains("+"+a[f]+"+", "+"+service+"+")
}

func (a Assignment) Services() []string {
	seen := map[string]bool{}
	for _, ss := range a {
		for _, s := range strings.Split(ss, "+") {
			seen[s] = true
		}
	}
	var out []string
	for s := range seen {
		out = append(out, s)
	}
	sort.Strings(out)
	return out
}

func (a Assignment) String() string {
	var ks []string
	for k := range a {
		ks = append(ks, k)
	}
	sort.Strings(ks)
	s := ""
	for _, k := range ks {
		s += k + "=" + a[k] + " "
	}
	return s
}

// Build registers on a schema the fields assigned to `service` ("" = everything: the monolith).
func Build(d *Data, a Assignment, service string) *schemabuilder.Schema {
	mono := service == ""
	var s *schemabuilder.Schema
	if mono {
		s = schemabuilder.NewSchema()
	} else {
		s = schemabuilder.NewSchemaWithName(service)
	}
	has := func(f string) bool { return mono || a.On(f, service) }
	needs := map[string]bool{}
	uses := map[string][]string{ // which object types a field touches
		"users": {"User"}, "user": {"User"}, "nobody": {"User"}, "noUsers": {"User"}, "devices": {"Device"}, "everyone": {"User", "Admin"}, "admins": {"Admin"},
		"User.email": {"User"}, "User.age": {"User"}, "User.secret": {"User"}, "User.device": {"User", "Device"}, "User.devices": {"User", "Device"}, "User.boss": {"User"},
		"Device.temp": {"Device"}, "Device.owner": {"Device", "User"}, "Device.tags": {"Device"}, "Admin.hiding": {"Admin"},
	}
	for f, ts := range uses {
		if has(f) {
			for _, t := range ts {
				needs[t] = true
			}
		}
	}
	var user, device, admin *schemabuilder.Object
	if needs["User"] {
		if mono {
			user = s.Object("User", User{})
		} else {
			if service == "s1" {
				user = s.Object("User", User{}, schemabuilder.FetchObjectFromKeys(func(args struct{ Keys []*User }) []*User { return args.Keys }))
			} else {
				// the other services identify a user by its id alone (a narrower key input type than s1's)
				user = s.Object("User", User{}, schemabuilder.FetchObjectFromKeys(func(args struct{ Keys []*UserIdKey }) []*User {
					out := make([]*User, len(args.Keys))
					for i, k := range args.Keys {
						out[i] = d.user(k.Id)
					}
					return out
				}))
			}
		}
		user.Key("id")
	}
	if needs["Device"] {
		if mono {
			device = s.Object("Device", Device{})
		} else {
			device = s.Object("Device", Device{}, schemabuilder.FetchObjectFromKeys(func(args struct{ Keys []*Device }) []*Device { return args.Keys }))
		}
		device.Key("id")
	}
	if needs["Admin"] {
		if mono {
			admin = s.Object("Admin", Admin{})
		} else {
			admin = s.Object("Admin", Admin{}, schemabuilder.FetchObjectFromKeys(func(args struct{ Keys []*Admin }) []*Admin { return args.Keys }))
		}
		admin.Key("id")
	}
	q := s.Query()
	m := s.Mutation()
	if has("user") { // the mutation lives on the service that serves the `user` root
		m.FieldFunc("pickUser", func(args struct{ Id int64 }) *User {
			d.Picked++
			return d.user(args.Id)
		})
	}
	if has("user") {
		// a payload type that only a mutation returns (not federated, reachable from the Mutation root only)
		m.FieldFunc("pickAndReport", func(args struct{ Id int64 }) *PickReport {
			d.Picked++
			return &PickReport{Ok: d.user(args.Id) != nil, Picked: args.Id}
		})
		s.Object("PickReport", PickReport{})
	}
	if has("users") {
		q.FieldFunc("users", func(ctx context.Context) ([]*User, error) { return d.Users, nil })
	}
	if has("user") {
		q.FieldFunc("user", func(args struct{ Id int64 }) *User { return d.user(args.Id) })
	}
	if has("nobody") {
		q.FieldFunc("nobody", func() *User { return nil })
	}
	if has("noUsers") {
		q.FieldFunc("noUsers", func() []*User { return []*User{} })
	}
	if has("devices") {
		q.FieldFunc("devices", func() []*Device { return d.Devices })
	}
	if !mono && a["boom"] == service {
		q.FieldFunc("boom", func() (int64, error) {
			rt.Yield() // fails after its siblings may have started
			return 0, fmt.Errorf("boom")
		})
	}
	if !mono && a["hang"] == service {
		// blocks until its context ends (a slow backend call that honours cancellation)
		q.FieldFunc("hang", func(ctx context.Context) (int64, error) {
			vchan.RecvExternal(ctx.Done())
			return 0, ctx.Err()
		})
	}
	if has("admins") {
		q.FieldFunc("admins", func() []*Admin { return d.Admins })
	}
	if has("everyone") {
		q.FieldFunc("everyone", func() []*Everyone {
			var out []*Everyone
			for i, u := range d.Users {
				out = append(out, &Everyone{User: u})
				if i < len(d.Admins) {
					out = append(out, &Everyone{Admin: d.Admins[i]})
				}
			}
			return out
		})
	}
	devicesOf := func(u *User) []*Device {
		out := []*Device{}
		for _, dv := range d.Devices {
			if dv.OrgId == u.OrgId {
				out = append(out, dv)
			}
		}
		return out
	}
	if has("User.email") {
		user.FieldFunc("email", func(u *User) string { return fmt.Sprintf("%s@%d.example", u.Name, u.OrgId) })
	}
	if has("User.age") {
		user.FieldFunc("age", func(ctx context.Context, u *User) (int64, error) { return 20 + u.Id, nil })
	}
	if has("User.secret") {
		user.FieldFunc("secret", func(u *User) *string {
			if u.Id%2 == 0 {
				return nil
			}
			s := fmt.Sprintf("s%d", u.Id)
			return &s
		})
	}
	if has("User.device") {
		user.FieldFunc("device", func(u *User) *Device {
			if ds := devicesOf(u); len(ds) > 0 {
				return ds[0]
			}
			return nil
		})
	}
	if has("User.devices") {
		user.FieldFunc("devices", func(u *User) []*Device { return devicesOf(u) })
	}
	if has("User.boss") {
		user.FieldFunc("boss", func(u *User) *User { return d.user(u.Id + 1) })
	}
	if has("Device.temp") {
		device.FieldFunc("temp", func(dv *Device) int64 { return 60 + dv.Id%7 })
	}
	if has("Device.owner") {
		device.FieldFunc("owner", func(dv *Device) *User {
			for _, u := range d.Users {
				if u.OrgId == dv.OrgId {
					return u
				}
			}
			return nil
		})
	}
	if has("Device.tags") {
		device.FieldFunc("tags", func(dv *Device) []string {
			if dv.IsOn {
				return []string{"on", fmt.Sprint(dv.Id)}
			}
			return []string{}
		})
	}
	if has("Admin.hiding") {
		admin.FieldFunc("hiding", func(ad *Admin) bool { return ad.Id%2 == 1 })
	}
	return s
}

// Recorder wraps an ExecutorClient and keeps the queries it received.
type Recorder struct {
	Name     string
	Inner    federation.ExecutorClient
	Requests []*graphql.Query
	// Atomic: the service answers in one step (no scheduling choice is explored inside the service's own execution)
	Atomic bool
	// Down: the service is unreachable for the moment (every request fails)
	Down bool
}

func (r *Recorder) Execute(ctx context.Context, req *federation.QueryRequest) (resp *federation.QueryResponse, err error) {
	if r.Down {
		return nil, fmt.Errorf("service %s: connection refused", r.Name)
	}
	r.Requests = append(r.Requests, req.Query)
	if r.Atomic {
		rt.NoBranch(func() { resp, err = r.Inner.Execute(ctx, req) })
		return
	}
	return r.Inner.Execute(ctx, req)
}

// Gateway is a federated deployment of the domain.
type Gateway struct {
	Exec      *federation.Executor
	Recorders map[string]*Recorder
	Schemas   map[string]*graphql.Schema
	Cancel    context.CancelFunc
}

// Deployment is the set of running services of an assignment (immutable: may be shared between executions).
type Deployment struct {
	Schemas map[string]*graphql.Schema
	Servers map[string]*federation.Server
}

func Deploy(d *Data, a Assignment) (*Deployment, error) {
	dep := &Deployment{Schemas: map[string]*graphql.Schema{}, Servers: map[string]*federation.Server{}}
	for _, svc := range a.Services() {
		schema := Build(d, a, svc).MustBuild()
		srv, err := federation.NewServer(schema)
		if err != nil {
			return nil, err
		}
		dep.Schemas[svc], dep.Servers[svc] = schema, srv
	}
	return dep, nil
}

// NewGateway builds the services of an assignment and a gateway in front of them.
// It must run inside a scheduler run (the gateway spawns its poll goroutine).
func NewGateway(ctx context.Context, d *Data, a Assignment, selector federation.ServiceSelector) (*Gateway, error) {
	dep, err := Deploy(d, a)
	if err != nil {
		return nil, err
	}
	var wrap func(federation.SchemaSyncer) federation.SchemaSyncer
	if selector != nil {
		wrap = func(in federation.SchemaSyncer) federation.SchemaSyncer {
			return &federation.VerifSelectorSyncer{Inner: in, Selector: selector}
		}
	}
	return NewGatewayOn(ctx, dep, wrap)
}

// NewGatewayOn puts a gateway (fresh recorders, fresh Executor) in front of an existing deployment.
func NewGatewayOn(ctx context.Context, dep *Deployment, wrap func(federation.SchemaSyncer) federation.SchemaSyncer) (*Gateway, error) {
	g := &Gateway{Recorders: map[string]*Recorder{}, Schemas: map[string]*graphql.Schema{}}
	execs := map[string]federation.ExecutorClient{}
	var svcs []string
	for svc := range dep.Servers {
		svcs = append(svcs, svc)
	}
	sort.Strings(svcs)
	for _, svc := range svcs {
		g.Schemas[svc] = dep.Schemas[svc]
		rec := &Recorder{Name: svc, Inner: &federation.DirectExecutorClient{Client: dep.Servers[svc]}}
		g.Recorders[svc] = rec
		execs[svc] = rec
	}
	var syncer federation.SchemaSyncer = federation.NewIntrospectionSchemaSyncer(ctx, execs, nil)
	if wrap != nil {
		syncer = wrap(syncer)
	}
	e, err := federation.NewExecutor(ctx, execs, &federation.SchemaSyncerConfig{SchemaSyncer: syncer})
	if err != nil {
		return nil, err
	}
	g.Exec = e
	return g, nil
}
