// Package gqlfix is the shared schemabuilder fixture: a small domain (users,
// items, a union) over explicit data, with the execution mode of selected
// fields chosen per schema instance.
package gqlfix

import (
	"bytes"
	"context"
	"encoding/json"
	"fmt"
	"sort"
	"time"

	"github.com/samsarahq/thunder/batch"
	"github.com/samsarahq/thunder/graphql"
	"github.com/samsarahq/thunder/graphql/schemabuilder"
	"github.com/samsarahq/thunder/reactive"
	"vrt/rt"
)

type User struct {
	Id   int64
	Name string
	Age  int32
}

type Item struct {
	Id      int64
	Name    string
	OwnerId int64 `graphql:"-"`
	Tags    []string
}

type Thing struct {
	schemabuilder.Union
	*User
	*Item
}

type Data struct {
	Users []*User
	Items []*Item
}

func (d *Data) UserByID(id int64) *User {
	for _, u := range d.Users {
		if u.Id == id {
			return u
		}
	}
	return nil
}

func (d *Data) ItemsOf(u *User) []*Item {
	var out []*Item
	for _, it := range d.Items {
		if it.OwnerId == u.Id {
			out = append(out, it)
		}
	}
	return out
}

// Friend is the user with the next higher id, nil for the last one.
func (d *Data) Friend(u *User) *User {
	var best *User
	for _, o := range d.Users {
		if o.Id > u.Id && (best == nil || o.Id < best.Id) {
			best = o
		}
	}
	return best
}

func (d *Data) Score(u *User) int64 { return u.Id*100 + int64(len(d.ItemsOf(u))) }

func (d *Data) Things() []*Thing {
	var out []*Thing
	for i, u := range d.Users {
		out = append(out, &Thing{User: u})
		if i < len(d.Items) {
			out = append(out, &Thing{Item: d.Items[i]})
		}
	}
	for i := len(d.Users); i < len(d.Items); i++ {
		out = append(out, &Thing{Item: d.Items[i]})
	}
	return out
}

func (d *Data) Fav(u *User) *Thing {
	its := d.ItemsOf(u)
	if len(its) > 0 {
		return &Thing{Item: its[0]}
	}
	if f := d.Friend(u); f != nil {
		return &Thing{User: f}
	}
	return nil
}

// DataSets are the three data sets used by the enumerations.
func DataSets() []*Data {
	return []*Data{
		{Users: []*User{{1, "ann", 30}, {2, "bob", 41}, {3, "cy", 52}},
			Items: []*Item{{10, "axe", 1, []string{"x", "y"}}, {11, "bow", 1, nil}, {12, "cup", 3, []string{}}, {13, "die", 99, []string{"z"}}}},
		{Users: []*User{{7, "solo", 9}}, Items: nil},
		{Users: nil, Items: []*Item{{20, "orphan", 5, []string{"t"}}}},
	}
}

// Mode is how a configurable field is registered.
type Mode int

const (
	Plain Mode = iota
	Expensive
	Batch
	BatchFallbackOn  // BatchFieldFuncWithFallback, flag says "use batch"
	BatchFallbackOff // flag says "use fallback"
	Par1             // batch + NumParallelInvocations 1
	Par2
	Par3
	PlainPar2 // non-batch field func with NumParallelInvocations 2
	NModes
)

var ModeNames = []string{"plain", "expensive", "batch", "batch+fallback(on)", "batch+fallback(off)", "par1", "par2", "par3", "plainpar2"}

func (m Mode) String() string { return ModeNames[m] }

// Modes assigns a mode to each configurable field: User.items, User.friend,
// User.score, Item.owner, User.fav, User.ack (a resolver that returns only an error).
type Modes map[string]Mode

// Hooks let harnesses observe or perturb resolvers.
type Hooks struct {
	// Before is called at the start of every configurable resolver invocation
	// with the field name and the keys of the sources; a non-nil error fails it.
	Before func(ctx context.Context, field string, keys []int64) error
}

func par(k int) schemabuilder.FieldFuncOption {
	return schemabuilder.NumParallelInvocationsFunc(func(ctx context.Context, n int) int { return k })
}

// register adds field `name` on obj in the given mode; one computes the value for one source.
func register[S any, R any](obj *schemabuilder.Object, name string, mode Mode, h *Hooks, key func(S) int64, one func(S) R) {
	before := func(ctx context.Context, keys []int64) error {
		if h != nil && h.Before != nil {
			return h.Before(ctx, name, keys)
		}
		return nil
	}
	single := func(ctx context.Context, s S) (R, error) {
		if err := before(ctx, []int64{key(s)}); err != nil {
			var z R
			return z, err
		}
		return one(s), nil
	}
	many := func(ctx context.Context, ss map[batch.Index]S) (map[batch.Index]R, error) {
		keys := make([]int64, 0, len(ss))
		for _, s := range ss {
			keys = append(keys, key(s))
		}
		sort.Slice(keys, func(i, j int) bool { return keys[i] < keys[j] })
		if err := before(ctx, keys); err != nil {
			return nil, err
		}
		out := make(map[batch.Index]R, len(ss))
		for i, s := range ss {
			out[i] = one(s)
		}
		return out, nil
	}
	switch mode {
	case Plain:
		obj.FieldFunc(name, single)
	case Expensive:
		obj.FieldFunc(name, single, schemabuilder.Expensive)
	case PlainPar2:
		obj.FieldFunc(name, single, par(2))
	case Batch:
		obj.BatchFieldFunc(name, many)
	case BatchFallbackOn:
		obj.BatchFieldFuncWithFallback(name, many, single, func(context.Context) bool { return true })
	case BatchFallbackOff:
		obj.BatchFieldFuncWithFallback(name, many, single, func(context.Context) bool { return false })
	case Par1:
		obj.BatchFieldFunc(name, many, par(1))
	case Par2:
		obj.BatchFieldFunc(name, many, par(2))
	case Par3:
		obj.BatchFieldFunc(name, many, par(3))
	default:
		panic("bad mode")
	}
}

// registerErrOnly adds field `name` whose resolver returns nothing but an error (the field's value is then `true`),
// in the given mode.
func registerErrOnly[S any](obj *schemabuilder.Object, name string, mode Mode, h *Hooks, key func(S) int64) {
	before := func(ctx context.Context, keys []int64) error {
		if h != nil && h.Before != nil {
			return h.Before(ctx, name, keys)
		}
		return nil
	}
	single := func(ctx context.Context, s S) error { return before(ctx, []int64{key(s)}) }
	many := func(ctx context.Context, ss map[batch.Index]S) error {
		keys := make([]int64, 0, len(ss))
		for _, s := range ss {
			keys = append(keys, key(s))
		}
		sort.Slice(keys, func(i, j int) bool { return keys[i] < keys[j] })
		return before(ctx, keys)
	}
	switch mode {
	case Plain:
		obj.FieldFunc(name, single)
	case Expensive:
		obj.FieldFunc(name, single, schemabuilder.Expensive)
	case PlainPar2:
		obj.FieldFunc(name, single, par(2))
	case Batch:
		obj.BatchFieldFunc(name, many)
	case BatchFallbackOn:
		obj.BatchFieldFuncWithFallback(name, many, single, func(context.Context) bool { return true })
	case BatchFallbackOff:
		obj.BatchFieldFuncWithFallback(name, many, single, func(context.Context) bool { return false })
	case Par1:
		obj.BatchFieldFunc(name, many, par(1))
	case Par2:
		obj.BatchFieldFunc(name, many, par(2))
	case Par3:
		obj.BatchFieldFunc(name, many, par(3))
	default:
		panic("bad mode")
	}
}

// Build constructs the schema over d.
func Build(d *Data, modes Modes, h *Hooks) *graphql.Schema {
	s := schemabuilder.NewSchema()
	q := s.Query()
	q.FieldFunc("users", func() []*User { return d.Users })
	q.FieldFunc("user", func(args struct{ Id int64 }) *User { return d.UserByID(args.Id) })
	q.FieldFunc("items", func() []*Item { return d.Items })
	// the users with null entries in front of and between them
	q.FieldFunc("usersN", func() []*User {
		out := []*User{nil}
		for _, u := range d.Users {
			out = append(out, u, nil)
		}
		return out
	})
	// the same objects handed to the executor by value (Item holds a slice: not comparable)
	q.FieldFunc("usersV", func() []User {
		var out []User
		for _, u := range d.Users {
			out = append(out, *u)
		}
		return out
	})
	q.FieldFunc("itemsV", func() []Item {
		var out []Item
		for _, it := range d.Items {
			out = append(out, *it)
		}
		return out
	})
	q.FieldFunc("things", func() []*Thing { return d.Things() })
	q.FieldFunc("thing", func(args struct{ I int64 }) *Thing {
		ts := d.Things()
		if args.I < 0 || int(args.I) >= len(ts) {
			return nil
		}
		return ts[args.I]
	})
	q.FieldFunc("count", func() int64 { return int64(len(d.Users)) })
	q.FieldFunc("nobody", func() *User { return nil })
	q.FieldFunc("empty", func() []*Item { return []*Item{} })

	user := s.Object("User", User{})
	user.Key("id")
	register(user, "items", modes["items"], h, func(u *User) int64 { return u.Id }, func(u *User) []*Item { return d.ItemsOf(u) })
	register(user, "friend", modes["friend"], h, func(u *User) int64 { return u.Id }, func(u *User) *User { return d.Friend(u) })
	scoreMode := modes["score"]
	if scoreMode == BatchFallbackOn || scoreMode == BatchFallbackOff {
		// the builder rejects batch+fallback for a non-pointer scalar (nullable vs non-null return types)
		scoreMode = Batch
	}
	register(user, "score", scoreMode, h, func(u *User) int64 { return u.Id }, func(u *User) int64 { return d.Score(u) })
	register(user, "fav", modes["fav"], h, func(u *User) int64 { return u.Id }, func(u *User) *Thing { return d.Fav(u) })
	registerErrOnly(user, "ack", modes["ack"], h, func(u *User) int64 { return u.Id })
	user.FieldFunc("best", func(u *User) *Item {
		if its := d.ItemsOf(u); len(its) > 0 {
			return its[0]
		}
		return nil
	})

	item := s.Object("Item", Item{})
	item.Key("id")
	register(item, "owner", modes["owner"], h, func(i *Item) int64 { return i.Id }, func(i *Item) *User { return d.UserByID(i.OwnerId) })

	m := s.Mutation()
	m.FieldFunc("noop", func() bool { return true })
	return s.MustBuild()
}

// FIFO is a sequential work scheduler (units run in arrival order).
type FIFO struct{}

func (FIFO) Run(resolver graphql.UnitResolver, units ...*graphql.WorkUnit) {
	queue := append([]*graphql.WorkUnit{}, units...)
	for len(queue) > 0 {
		u := queue[0]
		queue = queue[1:]
		queue = append(queue, resolver(u)...)
	}
}

// LIFO is a sequential work scheduler running the most recently created unit first.
type LIFO struct{}

func (LIFO) Run(resolver graphql.UnitResolver, units ...*graphql.WorkUnit) {
	stack := append([]*graphql.WorkUnit{}, units...)
	for len(stack) > 0 {
		u := stack[len(stack)-1]
		stack = stack[:len(stack)-1]
		stack = append(stack, resolver(u)...)
	}
}

// Exec parses, validates and executes a query; the result is normalised through JSON.
func Exec(ctx context.Context, schema *graphql.Schema, sched graphql.WorkScheduler, query string, vars map[string]interface{}) (res interface{}, err error) {
	return execWith(ctx, schema, sched, query, vars, Norm)
}

// ExecExact is Exec with numbers kept exact (json.Number).
func ExecExact(ctx context.Context, schema *graphql.Schema, sched graphql.WorkScheduler, query string, vars map[string]interface{}) (res interface{}, err error) {
	return execWith(ctx, schema, sched, query, vars, NormExact)
}

func execWith(ctx context.Context, schema *graphql.Schema, sched graphql.WorkScheduler, query string, vars map[string]interface{}, norm func(interface{}) (interface{}, error)) (res interface{}, err error) {
	defer func() {
		if p := recover(); p != nil {
			res, err = nil, fmt.Errorf("PANIC: %v", p)
		}
	}()
	q, err := graphql.Parse(query, vars)
	if err != nil {
		return nil, fmt.Errorf("parse: %w", err)
	}
	typ := schema.Query
	if q.Kind == "mutation" {
		typ = schema.Mutation
	}
	if err := graphql.PrepareQuery(ctx, typ, q.SelectionSet); err != nil {
		return nil, fmt.Errorf("prepare: %w", err)
	}
	res, err = graphql.NewExecutor(sched).Execute(ctx, typ, nil, q)
	if err != nil {
		return nil, fmt.Errorf("execute: %w", err)
	}
	return norm(res)
}

// ExecReactive is Exec inside a reactive.Rerunner (where Expensive fields go through reactive.Cache).
func ExecReactive(schema *graphql.Schema, sched graphql.WorkScheduler, query string, vars map[string]interface{}) (res interface{}, err error) {
	runs := 0
	rt.RunDefault(func() {
		rr := reactive.NewRerunner(context.Background(), func(ctx context.Context) (interface{}, error) {
			runs++
			res, err = Exec(ctx, schema, sched, query, vars)
			return nil, nil
		}, 0, false)
		rt.QuiesceWithin(time.Second)
		rr.Stop()
	})
	if runs != 1 && err == nil {
		err = fmt.Errorf("the computation ran %d times", runs)
	}
	return
}

// Norm normalises a value through encoding/json.
func Norm(v interface{}) (interface{}, error) {
	b, err := json.Marshal(v)
	if err != nil {
		return nil, fmt.Errorf("marshal: %w", err)
	}
	var out interface{}
	if err := json.Unmarshal(b, &out); err != nil {
		return nil, err
	}
	return out, nil
}

// NormExact is Norm with numbers kept as json.Number (exact beyond the float64 range).
func NormExact(v interface{}) (interface{}, error) {
	b, err := json.Marshal(v)
	if err != nil {
		return nil, fmt.Errorf("marshal: %w", err)
	}
	var out interface{}
	dec := json.NewDecoder(bytes.NewReader(b))
	dec.UseNumber()
	if err := dec.Decode(&out); err != nil {
		return nil, err
	}
	return out, nil
}

func JS(v interface{}) string { b, _ := json.Marshal(v); return string(b) }
