// Package qgen is a tiny GraphQL query AST with a printer; harnesses build
// queries as trees, print them for thunder and evaluate them with refeval.
package qgen

import (
	"fmt"
	"sort"
	"strings"
)

type Node struct {
	Kind     byte // 'f' field, 'i' inline fragment, 's' fragment spread
	Name     string
	Alias    string
	Args     map[string]interface{} // int64 / string values
	On       string                 // inline fragment type condition
	Children []*Node
}

type Fragment struct {
	Name, On string
	Body     []*Node
}

type Query struct {
	Root  []*Node
	Frags []*Fragment
}

func F(name string, ch ...*Node) *Node { return &Node{Kind: 'f', Name: name, Children: ch} }
func FA(alias, name string, ch ...*Node) *Node {
	return &Node{Kind: 'f', Name: name, Alias: alias, Children: ch}
}
func Arg(n *Node, k string, v interface{}) *Node {
	if n.Args == nil {
		n.Args = map[string]interface{}{}
	}
	n.Args[k] = v
	return n
}
func On(typ string, ch ...*Node) *Node { return &Node{Kind: 'i', On: typ, Children: ch} }
func Spread(name string) *Node         { return &Node{Kind: 's', Name: name} }

func (n *Node) Key() string {
	if n.Alias != "" {
		return n.Alias
	}
	return n.Name
}

func printNodes(ns []*Node) string {
	var parts []string
	for _, n := range ns {
		switch n.Kind {
		case 'f':
			s := n.Name
			if n.Alias != "" {
				s = n.Alias + ": " + n.Name
			}
			if len(n.Args) > 0 {
				var ks []string
				for k := range n.Args {
					ks = append(ks, k)
				}
				sort.Strings(ks)
				var as []string
				for _, k := range ks {
					switch v := n.Args[k].(type) {
					case string:
						as = append(as, fmt.Sprintf("%s: %q", k, v))
					default:
						as = append(as, fmt.Sprintf("%s: %v", k, v))
					}
				}
				s += "(" + strings.Join(as, ", ") + ")"
			}
			if len(n.Children) > 0 {
				s += " { " + printNodes(n.Children) + " }"
			}
			parts = append(parts, s)
		case 'i':
			parts = append(parts, "... on "+n.On+" { "+printNodes(n.Children)+" }")
		case 's':
			parts = append(parts, "..."+n.Name)
		}
	}
	return strings.Join(parts, " ")
}

func (q *Query) String() string {
	s := "{ " + printNodes(q.Root) + " }"
	for _, f := range q.Frags {
		s += " fragment " + f.Name + " on " + f.On + " { " + printNodes(f.Body) + " }"
	}
	return s
}

func (q *Query) Frag(name string) *Fragment {
	for _, f := range q.Frags {
		if f.Name == name {
			return f
		}
	}
	return nil
}
