// Package refeval is a naive sequential GraphQL evaluator over the gqlfix data
// (not over thunder's types): each selected field of each object is resolved
// from that object, same-alias selections and fragments are merged, list order
// is kept, nil objects render as null, union members are dispatched by their
// concrete type. It also records where every field instance lands in the response.
package refeval

import (
	"fmt"

	"verif/fix/gqlfix"
	"verif/fix/qgen"
)

type obj = map[string]interface{}

// Instance is one resolved field instance.
type Instance struct {
	Type, Field string
	Key         int64  // key of the source object (0 for Query)
	Path        string // response path: aliases and list indices joined by "."
}

type Eval struct {
	D         *gqlfix.Data
	Q         *qgen.Query
	Instances []Instance
	// Stop, if set, is consulted before resolving a field instance; returning true
	// aborts the evaluation of that field (used to model failing resolvers).
	Stop func(typ, field string, key int64) bool
}

// value kinds produced by field resolution
type uservalue struct{ u *gqlfix.User }
type itemvalue struct{ it *gqlfix.Item }
type thingvalue struct{ t *gqlfix.Thing }
type listvalue []interface{}

func (e *Eval) resolve(typ string, src interface{}, n *qgen.Node) (interface{}, error) {
	d := e.D
	switch typ {
	case "Query":
		switch n.Name {
		case "users", "usersV":
			var l listvalue
			for _, u := range d.Users {
				l = append(l, uservalue{u})
			}
			return l, nil
		case "usersN":
			l := listvalue{uservalue{nil}}
			for _, u := range d.Users {
				l = append(l, uservalue{u}, uservalue{nil})
			}
			return l, nil
		case "user":
			return uservalue{d.UserByID(toInt(n.Args["id"]))}, nil
		case "items", "itemsV":
			var l listvalue
			for _, it := range d.Items {
				l = append(l, itemvalue{it})
			}
			return l, nil
		case "things":
			var l listvalue
			for _, t := range d.Things() {
				l = append(l, thingvalue{t})
			}
			return l, nil
		case "thing":
			ts := d.Things()
			i := toInt(n.Args["i"])
			if i < 0 || int(i) >= len(ts) {
				return thingvalue{nil}, nil
			}
			return thingvalue{ts[i]}, nil
		case "count":
			return float64(len(d.Users)), nil
		case "nobody":
			return uservalue{nil}, nil
		case "empty":
			return listvalue{}, nil
		}
	case "User":
		u := src.(*gqlfix.User)
		switch n.Name {
		case "id":
			return float64(u.Id), nil
		case "name":
			return u.Name, nil
		case "age":
			return float64(u.Age), nil
		case "items":
			var l listvalue
			for _, it := range d.ItemsOf(u) {
				l = append(l, itemvalue{it})
			}
			return l, nil
		case "friend":
			return uservalue{d.Friend(u)}, nil
		case "score":
			return float64(d.Score(u)), nil
		case "ack":
			return true, nil
		case "fav":
			return thingvalue{d.Fav(u)}, nil
		case "best":
			if its := d.ItemsOf(u); len(its) > 0 {
				return itemvalue{its[0]}, nil
			}
			return itemvalue{nil}, nil
		}
	case "Item":
		it := src.(*gqlfix.Item)
		switch n.Name {
		case "id":
			return float64(it.Id), nil
		case "name":
			return it.Name, nil
		case "tags":
			l := listvalue{}
			for _, t := range it.Tags {
				l = append(l, t)
			}
			return l, nil
		case "owner":
			return uservalue{d.UserByID(it.OwnerId)}, nil
		}
	}
	return nil, fmt.Errorf("refeval: unknown field %s.%s", typ, n.Name)
}

func toInt(v interface{}) int64 {
	switch x := v.(type) {
	case int:
		return int64(x)
	case int64:
		return x
	case float64:
		return int64(x)
	}
	return 0
}

// collect gathers the fields that apply to an object of concrete type typ, merging fragments, in order.
func (e *Eval) collect(typ string, sel []*qgen.Node, out *[]*qgen.Node, order *[]string, groups map[string][]*qgen.Node) {
	for _, n := range sel {
		switch n.Kind {
		case 'f':
			k := n.Key()
			if _, ok := groups[k]; !ok {
				*order = append(*order, k)
			}
			groups[k] = append(groups[k], n)
		case 'i':
			if n.On == typ {
				e.collect(typ, n.Children, out, order, groups)
			}
		case 's':
			if f := e.Q.Frag(n.Name); f != nil && f.On == typ {
				e.collect(typ, f.Body, out, order, groups)
			}
		}
	}
}

func keyOf(typ string, src interface{}) int64 {
	switch s := src.(type) {
	case *gqlfix.User:
		return s.Id
	case *gqlfix.Item:
		return s.Id
	}
	return 0
}

// object evaluates a selection set against one object.
func (e *Eval) object(typ string, src interface{}, sel []*qgen.Node, path string) (obj, error) {
	var order []string
	groups := map[string][]*qgen.Node{}
	e.collect(typ, sel, nil, &order, groups)
	res := obj{}
	for _, k := range order {
		ns := groups[k]
		n := ns[0]
		p := k
		if path != "" {
			p = path + "." + k
		}
		if n.Name == "__typename" {
			res[k] = typ
			continue
		}
		e.Instances = append(e.Instances, Instance{Type: typ, Field: n.Name, Key: keyOf(typ, src), Path: p})
		if e.Stop != nil && e.Stop(typ, n.Name, keyOf(typ, src)) {
			res[k] = nil
			continue
		}
		v, err := e.resolve(typ, src, n)
		if err != nil {
			return nil, err
		}
		var sub []*qgen.Node
		for _, m := range ns {
			sub = append(sub, m.Children...)
		}
		out, err := e.render(v, sub, p)
		if err != nil {
			return nil, err
		}
		res[k] = out
	}
	if typ == "User" || typ == "Item" {
		res["__key"] = float64(keyOf(typ, src))
	}
	return res, nil
}

func (e *Eval) render(v interface{}, sub []*qgen.Node, path string) (interface{}, error) {
	switch x := v.(type) {
	case listvalue:
		out := make([]interface{}, len(x))
		for i, el := range x {
			r, err := e.render(el, sub, fmt.Sprintf("%s.%d", path, i))
			if err != nil {
				return nil, err
			}
			out[i] = r
		}
		return out, nil
	case uservalue:
		if x.u == nil {
			return nil, nil
		}
		return e.object("User", x.u, sub, path)
	case itemvalue:
		if x.it == nil {
			return nil, nil
		}
		return e.object("Item", x.it, sub, path)
	case thingvalue:
		if x.t == nil {
			return nil, nil
		}
		if x.t.User != nil {
			return e.object("User", x.t.User, sub, path)
		}
		if x.t.Item != nil {
			return e.object("Item", x.t.Item, sub, path)
		}
		return nil, nil
	}
	return v, nil
}

// Run evaluates the whole query.
func (e *Eval) Run() (interface{}, error) {
	e.Instances = nil
	return e.object("Query", nil, e.Q.Root, "")
}
