// Package refmerge applies a thunder delta the way the documented format /
// client/src/merge.ts does. It is written from the format description, not from
// merge.go: a value that is an array is [replacement] ([] = deletion, handled by
// the parent), a non-object is a scalar replacement, an object is a recursive
// delta whose "$" entry (arrays only) lists, per new position, the old index,
// -1, or a run [start,count].
package refmerge

import "fmt"

type undefinedT struct{}

// Undefined models JavaScript's undefined (array holes, missing originals).
var Undefined = undefinedT{}

func Merge(original, update interface{}) (res interface{}, err error) {
	defer func() {
		if p := recover(); p != nil {
			err = fmt.Errorf("refmerge: %v", p)
		}
	}()
	return Normalize(merge(original, update)), nil
}

// Normalize turns undefined into null (what JSON.stringify shows inside arrays).
func Normalize(v interface{}) interface{} {
	switch v := v.(type) {
	case undefinedT:
		return nil
	case []interface{}:
		out := make([]interface{}, len(v))
		for i := range v {
			out[i] = Normalize(v[i])
		}
		return out
	case map[string]interface{}:
		out := map[string]interface{}{}
		for k, x := range v {
			if _, undef := x.(undefinedT); undef {
				continue // JSON.stringify drops undefined object members
			}
			out[k] = Normalize(x)
		}
		return out
	}
	return v
}

func merge(original, update interface{}) interface{} {
	if arr, ok := update.([]interface{}); ok {
		if len(arr) == 0 {
			return Undefined
		}
		return arr[0]
	}
	upd, ok := update.(map[string]interface{})
	if !ok {
		return update // scalar or null
	}
	if orig, ok := original.([]interface{}); ok {
		var merged []interface{}
		order, has := upd["$"]
		if !has {
			order = []interface{}{[]interface{}{float64(0), float64(len(orig))}}
		}
		for _, x := range order.([]interface{}) {
			if run, ok := x.([]interface{}); ok {
				start, count := int(run[0].(float64)), int(run[1].(float64))
				for i := start; i < start+count; i++ {
					merged = append(merged, at(orig, i))
				}
			} else {
				merged = append(merged, at(orig, int(x.(float64))))
			}
		}
		for key, u := range upd {
			if key == "$" {
				continue
			}
			var idx int
			if _, err := fmt.Sscanf(key, "%d", &idx); err != nil || fmt.Sprint(idx) != key {
				panic("array delta with non-index key " + key)
			}
			for len(merged) <= idx {
				merged = append(merged, Undefined)
			}
			merged[idx] = merge(merged[idx], u)
		}
		if merged == nil {
			merged = []interface{}{}
		}
		return merged
	}
	merged := map[string]interface{}{}
	if orig, ok := original.(map[string]interface{}); ok {
		for k, v := range orig {
			merged[k] = v
		}
	}
	for key, value := range upd {
		if arr, ok := value.([]interface{}); ok && len(arr) == 0 {
			delete(merged, key)
		} else {
			var o interface{} = Undefined
			if v, ok := merged[key]; ok {
				o = v
			}
			merged[key] = merge(o, value)
		}
	}
	return merged
}

func at(a []interface{}, i int) interface{} {
	if i < 0 || i >= len(a) {
		return Undefined
	}
	return a[i]
}
