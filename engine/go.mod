module verif

go 1.21

require (
	github.com/samsarahq/thunder v0.0.0
	vrt v0.0.0
)

replace github.com/samsarahq/thunder => /repo

replace vrt => ./vrt
