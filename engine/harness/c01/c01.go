// Package c01: query results equal sequential reference semantics under any scheduling.
package c01

import (
	"context"
	"fmt"
	"reflect"
	"strings"

	"github.com/samsarahq/thunder/graphql"
	"verif/explore"
	"verif/fix/gqlfix"
	"verif/fix/qgen"
	"verif/fix/refeval"
	"verif/harness/reg"
)

var (
	F, FA, On, Spread, Arg = qgen.F, qgen.FA, qgen.On, qgen.Spread, qgen.Arg
)

type block struct {
	nodes []*qgen.Node
	frags []string // named fragments used
}

func b(ns ...*qgen.Node) block { return block{nodes: ns} }
func bf(frag string, ns ...*qgen.Node) block {
	return block{nodes: ns, frags: []string{frag}}
}

func fragDefs() map[string]*qgen.Fragment {
	return map[string]*qgen.Fragment{
		"UF": {Name: "UF", On: "User", Body: []*qgen.Node{F("name"), F("score")}},
		"IF": {Name: "IF", On: "Item", Body: []*qgen.Node{F("name"), F("tags")}},
		"UG": {Name: "UG", On: "User", Body: []*qgen.Node{F("id"), Spread("UF"), F("friend", F("name"))}},
	}
}

func userBlocks(deep bool) []block {
	bs := []block{
		b(F("id")), b(F("name")), b(FA("n", "name"), F("name")), b(F("age"), F("age")), b(F("score")), b(F("__typename")),
		b(On("User", F("name"), F("age"))), bf("UF", Spread("UF")), bf("UF", Spread("UF"), Spread("UF"), F("id")),
		b(F("best", F("id"))), b(F("ack")),
	}
	if deep {
		bs = append(bs,
			b(F("friend", F("id"))), b(F("friend", F("name"), F("score"))),
			b(F("friend", F("id")), F("friend", F("name"))), // same alias, different sub-selections
			b(F("friend", F("friend", F("id")))),
			b(F("items", F("id"))), b(F("items", F("name"), F("tags"))),
			b(F("items", F("id")), F("items", F("owner", F("name")))),
			b(F("items", F("owner", F("id"), F("score")))),
			bf("IF", F("items", Spread("IF"))),
			b(F("fav", F("__typename"), On("User", F("name")), On("Item", F("name"), F("id")))),
			b(F("fav", On("Item", F("id")), On("Item", F("name")))), // two fragments on one member
			b(F("fav", F("__typename"))),
			bf("UG", Spread("UG")),
		)
	}
	return bs
}

func itemBlocks() []block {
	return []block{
		b(F("id")), b(F("name"), F("tags")), b(F("__typename")), bf("IF", Spread("IF")),
		b(F("owner", F("id"), F("name"))), b(F("owner", F("score"))), b(F("owner", F("items", F("id")))),
		b(F("owner", F("id")), FA("o2", "owner", F("friend", F("name")))),
	}
}

func thingBlocks() []block {
	return []block{
		b(F("__typename")),
		b(On("User", F("id"), F("name")), On("Item", F("id"), F("name"))),
		b(F("__typename"), On("User", F("score"))),
		b(On("User", F("id")), On("User", F("name"))),
		b(On("Item", F("owner", F("name")))),
		bf("UF", Spread("UF"), On("Item", F("id"))),
		b(On("User", F("items", F("id")), F("friend", F("id")))),
	}
}

// sets returns all unions of 1..k blocks.
func sets(bs []block, k int) []block {
	var out []block
	var rec func(start int, cur block, n int)
	rec = func(start int, cur block, n int) {
		if n > 0 {
			out = append(out, cur)
		}
		if n == k {
			return
		}
		for i := start; i < len(bs); i++ {
			nx := block{nodes: append(append([]*qgen.Node{}, cur.nodes...), bs[i].nodes...), frags: append(append([]string{}, cur.frags...), bs[i].frags...)}
			rec(i+1, nx, n+1)
		}
	}
	rec(0, block{}, 0)
	return out
}

func closure(frags []string) []*qgen.Fragment {
	defs := fragDefs()
	seen := map[string]bool{}
	var out []*qgen.Fragment
	var add func(n string)
	add = func(n string) {
		if seen[n] {
			return
		}
		seen[n] = true
		f := defs[n]
		out = append(out, f)
		var walk func(ns []*qgen.Node)
		walk = func(ns []*qgen.Node) {
			for _, c := range ns {
				if c.Kind == 's' {
					add(c.Name)
				}
				walk(c.Children)
			}
		}
		walk(f.Body)
	}
	for _, n := range frags {
		add(n)
	}
	// nested spreads inside inline bodies
	return out
}

func queriesFor(tier string) []*qgen.Query {
	k := 2
	var qs []*qgen.Query
	mk := func(root *qgen.Node, bl block) {
		r := *root
		r.Children = bl.nodes
		qs = append(qs, &qgen.Query{Root: []*qgen.Node{&r}, Frags: closure(bl.frags)})
	}
	uroots := []*qgen.Node{F("users"), Arg(F("user"), "id", int64(1)), Arg(F("user"), "id", int64(99)), F("nobody")}
	for ri, r := range uroots {
		deep := ri < 2
		kk := k
		if !deep {
			kk = 1
		}
		for _, s := range sets(userBlocks(deep), kk) {
			mk(r, s)
		}
	}
	for _, s := range sets(userBlocks(false), 1) {
		mk(F("usersV"), s)
		mk(F("usersN"), s)
	}
	for _, r := range []*qgen.Node{F("items"), F("empty"), F("itemsV")} {
		for _, s := range sets(itemBlocks(), k) {
			mk(r, s)
		}
	}
	for _, r := range []*qgen.Node{F("things"), Arg(F("thing"), "i", int64(0)), Arg(F("thing"), "i", int64(1)), Arg(F("thing"), "i", int64(99))} {
		for _, s := range sets(thingBlocks(), k) {
			mk(r, s)
		}
	}
	// several roots, same root alias twice, aliases
	qs = append(qs,
		&qgen.Query{Root: []*qgen.Node{F("count"), F("users", F("id")), F("users", F("name"))}},
		&qgen.Query{Root: []*qgen.Node{FA("a", "users", F("id")), FA("b", "users", F("items", F("id"))), F("count"), FA("c", "count")}},
		&qgen.Query{Root: []*qgen.Node{F("items", F("owner", F("items", F("owner", F("name"))))), F("things", F("__typename"))}},
		&qgen.Query{Root: []*qgen.Node{F("users", F("friend", F("friend", F("friend", F("id"), F("score"))))), F("empty", F("id")), F("nobody", F("id"))}},
	)
	// one member fragment spread under two union parents, only one of which selects the union's own __typename
	// (what one site adds for its members must not reach the other site through the shared fragment)
	for _, tn := range []*qgen.Node{F("__typename"), FA("t", "__typename")} {
		frs := []*qgen.Fragment{{Name: "UF", On: "User", Body: []*qgen.Node{F("name")}}, {Name: "IF", On: "Item", Body: []*qgen.Node{F("id")}}}
		a := FA("a", "things", tn, Spread("UF"), Spread("IF"))
		b := FA("b", "things", Spread("UF"), Spread("IF"))
		c := Arg(FA("c", "thing", Spread("UF")), "i", int64(0))
		d := Arg(FA("d", "thing", tn, Spread("IF"), Spread("UF")), "i", int64(1))
		for _, pair := range [][]*qgen.Node{{a, b}, {b, a}, {a, c}, {c, a}, {d, b}, {c, d}} {
			qs = append(qs, &qgen.Query{Root: pair, Frags: frs})
		}
	}
	// one named fragment spread at two sites whose other same-alias selections differ
	// (a merge at one site must not leak into the other through the shared fragment)
	subs := [][]*qgen.Node{{F("id"), F("name"), F("age")}, {F("id")}, {F("name"), F("score")}, {F("id"), F("name"), F("age"), F("score"), FA("n2", "name")}}
	extras := [][]*qgen.Node{{F("score")}, {FA("n", "name")}, {F("age"), F("items", F("id"))}}
	for _, sub := range subs {
		for ei, e1 := range extras {
			for _, e2 := range extras[ei+1:] {
				for _, child := range []string{"friend", "best"} {
					csub := sub
					c1, c2 := e1, e2
					if child == "best" {
						csub = []*qgen.Node{F("id"), F("name"), F("tags")}
						c1, c2 = []*qgen.Node{F("owner", F("id"))}, []*qgen.Node{FA("n", "name")}
					}
					frs := []*qgen.Fragment{
						{Name: "SF", On: "User", Body: []*qgen.Node{F(child, csub...), F("id")}},
						{Name: "SG", On: "User", Body: []*qgen.Node{F(child, c1...)}},
						{Name: "SH", On: "User", Body: []*qgen.Node{F(child, c2...)}},
					}
					a := Arg(FA("a", "user", Spread("SF"), Spread("SG")), "id", int64(1))
					bq := Arg(FA("b", "user", Spread("SF"), Spread("SH")), "id", int64(2))
					qs = append(qs, &qgen.Query{Root: []*qgen.Node{a, bq}, Frags: frs}, &qgen.Query{Root: []*qgen.Node{bq, a}, Frags: frs},
						&qgen.Query{Root: []*qgen.Node{F("users", Spread("SF"), Spread("SG")), FA("c", "users", Spread("SF"), Spread("SH"))}, Frags: frs})
				}
			}
		}
	}
	if tier == "thorough" {
		for _, s := range sets(userBlocks(true), 3) {
			if len(s.nodes) >= 3 {
				mk(uroots[0], s)
			}
		}
	}
	return qs
}

var modeFields = []string{"items", "friend", "score", "owner", "fav", "ack"}

func modeSets(tier string) []gqlfix.Modes {
	out := []gqlfix.Modes{{}}
	for _, f := range modeFields {
		for m := gqlfix.Mode(1); m < gqlfix.NModes; m++ {
			out = append(out, gqlfix.Modes{f: m})
		}
	}
	// pairs of concurrent modes
	pairs := [][2]gqlfix.Mode{{gqlfix.Expensive, gqlfix.Batch}, {gqlfix.Par2, gqlfix.Expensive}, {gqlfix.BatchFallbackOff, gqlfix.Par3}, {gqlfix.PlainPar2, gqlfix.Batch}}
	for _, p := range pairs {
		out = append(out, gqlfix.Modes{"items": p[0], "owner": p[1]}, gqlfix.Modes{"friend": p[0], "score": p[1]}, gqlfix.Modes{"fav": p[0], "items": p[1]})
	}
	if tier == "thorough" {
		for a := gqlfix.Mode(1); a < gqlfix.NModes; a += 2 {
			for bm := gqlfix.Mode(2); bm < gqlfix.NModes; bm += 3 {
				out = append(out, gqlfix.Modes{"items": a, "friend": bm, "owner": a, "score": bm})
			}
		}
	}
	return out
}

func modesName(m gqlfix.Modes) string {
	var parts []string
	for _, f := range modeFields {
		if v, ok := m[f]; ok {
			parts = append(parts, f+"="+v.String())
		}
	}
	if len(parts) == 0 {
		return "plain"
	}
	return strings.Join(parts, ",")
}

func usesField(q *qgen.Query, names map[string]bool) bool {
	found := false
	var walk func(ns []*qgen.Node)
	walk = func(ns []*qgen.Node) {
		for _, n := range ns {
			if n.Kind == 'f' && names[n.Name] {
				found = true
			}
			walk(n.Children)
		}
	}
	walk(q.Root)
	for _, f := range q.Frags {
		walk(f.Body)
	}
	return found
}

func runSeq(rp *explore.Report, tier string) {
	data := gqlfix.DataSets()
	qs := queriesFor(tier)
	ms := modeSets(tier)
	var k int64
	for di, d := range data {
		// reference results per query (independent of mode and scheduler)
		want := make([]interface{}, len(qs))
		for qi, q := range qs {
			ev := &refeval.Eval{D: d, Q: q}
			w, err := ev.Run()
			if err != nil {
				panic(fmt.Sprintf("refeval %s: %v", q, err))
			}
			want[qi], _ = gqlfix.Norm(w)
		}
		for _, m := range ms {
			names := map[string]bool{}
			for f := range m {
				names[f] = true
			}
			schema := gqlfix.Build(d, m, nil)
			for qi, q := range qs {
				if len(m) > 0 && !usesField(q, names) {
					continue // the varied field is not selected: same as the all-plain schema
				}
				for si, sched := range []graphql.WorkScheduler{gqlfix.FIFO{}, gqlfix.LIFO{}} {
					k++
					if !rp.Mine(k) {
						continue
					}
					rp.Cases++
					text := q.String()
					got, err := gqlfix.Exec(context.Background(), schema, sched, text, nil)
					if rp.Cases%2999 == 1 {
						rp.AddSample(map[string]interface{}{"data": di, "modes": modesName(m), "scheduler": []string{"fifo", "lifo"}[si], "query": text})
					}
					if len(m) > 0 {
						rp.Nontrivial++
					}
					if err == nil && reflect.DeepEqual(got, want[qi]) && hasExpensive(m) && si == 0 {
						// Expensive fields go through reactive.Cache only inside a rerunner
						got, err = gqlfix.ExecReactive(schema, sched, text, nil)
						if err != nil || !reflect.DeepEqual(got, want[qi]) {
							rp.AddViolation(&explore.Violation{Item: fmt.Sprintf("data=%d modes=%s sched=%d in-rerunner %s", di, modesName(m), si, text), Stable: true,
								Signature: "c01/result!=reference/in-rerunner/" + shape(q),
								Failures:  []explore.Failure{{Clause: "result==reference", Msg: fmt.Sprintf("inside a reactive rerunner Execute gives %s (err=%v), sequential reference semantics give %s", gqlfix.JS(got), err, gqlfix.JS(want[qi]))}}})
						}
						continue
					}
					if err != nil || !reflect.DeepEqual(got, want[qi]) {
						cls := "plain"
						if len(m) > 0 {
							cls = "mode"
						}
						rp.AddViolation(&explore.Violation{Item: fmt.Sprintf("data=%d modes=%s sched=%d %s", di, modesName(m), si, text), Stable: true,
							Signature: "c01/result!=reference/" + cls + "/" + shape(q),
							Failures:  []explore.Failure{{Clause: "result==reference", Msg: fmt.Sprintf("Execute gives %s (err=%v), sequential reference semantics give %s", gqlfix.JS(got), err, gqlfix.JS(want[qi]))}}})
					}
				}
			}
		}
	}
	// a resolver that returns only an error, failing for one object, in every execution mode: the sequential
	// reference has no result for such a query, so Execute must fail too (never render the field)
	for di, d := range data {
		if len(d.Users) == 0 {
			continue
		}
		hooks := &gqlfix.Hooks{Before: func(ctx context.Context, field string, keys []int64) error {
			if field == "ack" {
				return fmt.Errorf("ack refused for %v", keys)
			}
			return nil
		}}
		for mode := gqlfix.Mode(0); mode < gqlfix.NModes; mode++ {
			schema := gqlfix.Build(d, gqlfix.Modes{"ack": mode}, hooks)
			for _, fq := range []*qgen.Query{
				{Root: []*qgen.Node{F("users", F("id"), F("ack"))}},
				{Root: []*qgen.Node{F("usersV", F("ack"))}},
				{Root: []*qgen.Node{F("users", F("friend", F("ack")), F("name"))}},
			} {
				ev := &refeval.Eval{D: d, Q: fq}
				ev.Run()
				reached := false
				for _, in := range ev.Instances {
					reached = reached || in.Field == "ack"
				}
				if !reached {
					continue // no object for the failing field in this data set
				}
				text := fq.String()
				for si, sched := range []graphql.WorkScheduler{gqlfix.FIFO{}, gqlfix.LIFO{}} {
					k++
					if !rp.Mine(k) {
						continue
					}
					rp.Cases++
					rp.Nontrivial++
					got, err := gqlfix.Exec(context.Background(), schema, sched, text, nil)
					if err == nil {
						rp.AddViolation(&explore.Violation{Item: fmt.Sprintf("data=%d ack=%s sched=%d %s", di, mode, si, text), Stable: true,
							Signature: "c01/failing-resolver-yields-data/" + mode.String(),
							Failures:  []explore.Failure{{Clause: "result==reference", Msg: fmt.Sprintf("every call of the resolver of ack failed, yet Execute returned %s", gqlfix.JS(got))}}})
					}
				}
			}
		}
	}
	rp.AddOutcome(fmt.Sprintf("queries=%d modesets=%d", len(qs), len(ms)))
}

func hasExpensive(m gqlfix.Modes) bool {
	for _, v := range m {
		if v == gqlfix.Expensive {
			return true
		}
	}
	return false
}

// shape classifies a query by its root field and whether it uses unions/fragments.
func shape(q *qgen.Query) string {
	s := q.Root[0].Name
	txt := q.String()
	if strings.Contains(txt, "... on") {
		s += "+inline"
	}
	if len(q.Frags) > 0 {
		s += "+spread"
	}
	return s
}

func init() {
	reg.Register(&reg.Harness{Property: "C01", Name: "c01/sequential", Level: "model_checking", Run: runSeq,
		Rule: "sequential part: every generated query (roots users/user(hit,miss)/nobody/items/empty/things/thing(hit,miss) and the same lists handed over by value (comparable and non-comparable structs) x unions of 1-2 (thorough 3) selection blocks: scalars, aliases, same alias twice with different sub-selections, inline + named fragments incl. one fragment twice and nested fragments, union member fragments incl. two on one member, __typename, nested objects/lists/nil pointers, key fields) x 3 data sets x one field at a time in each execution mode {expensive, batch, batch+fallback on/off, NumParallelInvocations 1/2/3 on batch, 2 on plain} plus mode pairs x sequential FIFO and LIFO work schedulers, and for mode sets with an Expensive field additionally inside a reactive rerunner (reactive.Cache active); oracle: Execute JSON == independent evaluator over the fixture data"})
}
