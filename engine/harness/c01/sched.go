package c01

import (
	"context"
	"fmt"
	"reflect"
	"strings"

	"github.com/samsarahq/thunder/graphql"
	"verif/explore"
	"verif/fix/gqlfix"
	"verif/fix/qgen"
	"verif/fix/refeval"
	"verif/harness/reg"
	"vrt/rt"
)

type schedCase struct {
	data  int
	modes gqlfix.Modes
	q     *qgen.Query
	pause bool // every configurable resolver yields to the scheduler before it reads its source object
}

func schedCases(tier string) []schedCase {
	frags := fragDefs()
	qs := []*qgen.Query{
		{Root: []*qgen.Node{F("users", F("id"), F("items", F("id"), F("owner", F("name"))))}},
		{Root: []*qgen.Node{F("users", F("friend", F("score")), F("score"))}},
		{Root: []*qgen.Node{F("users", F("items", F("id")), F("items", F("owner", F("id"))), F("friend", F("id")))}},
		{Root: []*qgen.Node{F("items", F("owner", F("items", F("id"))), F("name")), F("count")}},
		{Root: []*qgen.Node{F("users", F("fav", F("__typename"), On("User", F("score")), On("Item", F("owner", F("name")))))}},
		{Root: []*qgen.Node{F("things", On("User", F("friend", F("name")), F("score")), On("Item", F("owner", F("score"))))}},
		{Root: []*qgen.Node{F("users", Spread("UG"), F("items", Spread("IF")))}, Frags: []*qgen.Fragment{frags["UG"], frags["UF"], frags["IF"]}},
	}
	ms := []gqlfix.Modes{
		{"items": gqlfix.Expensive, "owner": gqlfix.Expensive},
		{"items": gqlfix.Batch, "owner": gqlfix.Par2, "score": gqlfix.Expensive},
		{"friend": gqlfix.Par2, "score": gqlfix.Par3},
		{"items": gqlfix.BatchFallbackOff, "owner": gqlfix.Batch, "fav": gqlfix.Expensive},
		{"items": gqlfix.PlainPar2, "friend": gqlfix.Expensive, "score": gqlfix.Batch, "owner": gqlfix.Par3, "fav": gqlfix.Par2},
	}
	var out []schedCase
	// sources handed over by value, resolvers that read their source after a scheduling point
	vq := []*qgen.Query{
		{Root: []*qgen.Node{F("usersV", F("id"), F("score"), F("friend", F("id")))}},
		{Root: []*qgen.Node{F("itemsV", F("id"), F("owner", F("name")))}},
		{Root: []*qgen.Node{F("users", F("id"), F("score"), F("items", F("owner", F("id"))))}},
	}
	vm := []gqlfix.Modes{
		{"score": gqlfix.Expensive, "friend": gqlfix.Expensive, "owner": gqlfix.Expensive},
		{"score": gqlfix.PlainPar2, "friend": gqlfix.BatchFallbackOff, "owner": gqlfix.PlainPar2, "items": gqlfix.Par2},
	}
	for qi, q := range vq {
		for mi, m := range vm {
			if tier != "thorough" && qi == 2 && mi == 1 {
				continue
			}
			out = append(out, schedCase{data: 0, modes: m, q: q, pause: true})
		}
	}
	for qi, q := range qs {
		for mi, m := range ms {
			if tier != "thorough" && (qi+mi)%2 == 1 {
				continue
			}
			out = append(out, schedCase{data: 0, modes: m, q: q})
		}
	}
	return out
}

func (c schedCase) name() string {
	p := ""
	if c.pause {
		p = "pause "
	}
	return fmt.Sprintf("%smodes=%s query=%s", p, modesName(c.modes), c.q.String())
}

func schedItem(c schedCase) *explore.Item {
	d := gqlfix.DataSets()[c.data]
	ev := &refeval.Eval{D: d, Q: c.q}
	w, err := ev.Run()
	if err != nil {
		panic(err)
	}
	want, _ := gqlfix.Norm(w)
	var hooks *gqlfix.Hooks
	if c.pause {
		hooks = &gqlfix.Hooks{Before: func(ctx context.Context, field string, keys []int64) error { rt.Yield(); return nil }}
	}
	schema := gqlfix.Build(d, c.modes, hooks)
	text := c.q.String()
	return &explore.Item{Name: c.name(), Bound: -1, MaxSteps: 20000, Body: func(x *explore.Exec) {
		got, err := gqlfix.Exec(context.Background(), schema, graphql.NewImmediateGoroutineScheduler(), text, nil)
		if err != nil || !reflect.DeepEqual(got, want) {
			x.Fail("result==reference", "c01/scheduled/result!=reference", "Execute under the goroutine scheduler gives %s (err=%v), reference gives %s", gqlfix.JS(got), err, gqlfix.JS(want))
		}
		x.Outcome("ok")
		x.Nontrivial()
	}}
}

func runSched(rp *explore.Report, tier string) {
	for _, c := range schedCases(tier) {
		it := schedItem(c)
		it.Split = true
		rp.Explore(it)
	}
}

func init() {
	reg.Register(&reg.Harness{Property: "C01", Name: "c01/scheduled", Level: "model_checking", Bounds: [2]int{2, 3}, Run: runSched,
		Item: func(name string) *explore.Item {
			for _, c := range schedCases("thorough") {
				if c.name() == name {
					return schedItem(c)
				}
			}
			panic("unknown item " + name)
		},
		Rule: "scheduled part: queries with several concurrent work units (expensive fields split per source, batch fields, NumParallelInvocations 2-3, nested lists, unions, fragments; sources handed over by pointer and by value; resolvers that read their source only after a scheduling point) executed with thunder's goroutine-per-work-unit scheduler under every interleaving within the deviation bound; oracle: result == independent evaluator"})
	_ = strings.Join
}
