// Package c03: diff/merge round trip over all pairs of small JSON values.
package c03

import (
	"bytes"
	"encoding/json"
	"fmt"
	"os"
	"os/exec"
	"path/filepath"
	"reflect"
	"strings"

	"github.com/samsarahq/thunder/diff"
	"github.com/samsarahq/thunder/merge"
	"verif/explore"
	"verif/fix/refmerge"
	"verif/harness/reg"
)

type obj = map[string]interface{}
type arr = []interface{}

func clone(v interface{}) interface{} {
	switch v := v.(type) {
	case obj:
		o := obj{}
		for k, x := range v {
			o[k] = clone(x)
		}
		return o
	case arr:
		o := make(arr, len(v))
		for i := range v {
			o[i] = clone(v[i])
		}
		return o
	}
	return v
}

func seqs(elems []interface{}, maxLen int) []interface{} {
	var out []interface{}
	var rec func(cur arr)
	rec = func(cur arr) {
		out = append(out, clone(cur))
		if len(cur) == maxLen {
			return
		}
		for _, e := range elems {
			rec(append(cur[:len(cur):len(cur)], e))
		}
	}
	rec(arr{})
	return out
}

// values builds the value alphabet V for a tier.
func values(tier string) []interface{} {
	scal := []interface{}{nil, false, float64(0), float64(1), "a", ""}
	few := []interface{}{nil, float64(0), float64(1), "a"}
	var V []interface{}
	V = append(V, scal...)
	// depth 1: arrays of scalars (with duplicates), objects over field names that collide with the format
	alen := 3
	V = append(V, seqs(few, alen)...)
	names := []string{"a", "b", "$", "0"}
	var objs1 []interface{}
	for i, n1 := range names {
		for _, v1 := range few {
			objs1 = append(objs1, obj{n1: v1})
			for _, n2 := range names[i+1:] {
				for _, v2 := range []interface{}{nil, float64(1)} {
					objs1 = append(objs1, obj{n1: v1, n2: v2})
				}
			}
		}
	}
	V = append(V, objs1...)
	// keyed objects
	var keyed []interface{}
	for _, k := range []interface{}{float64(1), float64(2), "x"} {
		for _, v := range []interface{}{float64(0), float64(1)} {
			keyed = append(keyed, obj{"__key": k, "v": v})
		}
	}
	V = append(V, keyed...)
	// a key whose value is null (a nil key field), next to the same object without a key and with a real one;
	// other values than v's so that these objects differ from the ones above in more than the key
	nullKeyed := []interface{}{obj{"__key": nil, "v": float64(0)}, obj{"__key": nil, "v": float64(1)}, obj{"__key": nil}, obj{"v": float64(0)}, obj{"v": float64(1)}}
	V = append(V, nullKeyed...)
	V = append(V, seqs([]interface{}{nullKeyed[0], nullKeyed[1], nullKeyed[3], keyed[0]}, 2)[1:]...)
	// depth 2: arrays of keyed objects (reorders, duplicates, insertions, deletions), arrays mixing kinds,
	// objects holding arrays / objects (fields appearing and disappearing with complex values)
	V = append(V, seqs(keyed, 3)[1:]...)
	mixed := []interface{}{nil, float64(1), obj{"a": float64(1)}, arr{float64(1)}, arr{}, obj{"__key": float64(1), "v": float64(0)}}
	V = append(V, seqs(mixed, 2)[1:]...)
	inner := []interface{}{arr{}, arr{"b", "c"}, arr{float64(0), float64(1)}, obj{}, obj{"a": float64(1)}, obj{"__key": float64(1), "v": float64(1)},
		arr{obj{"__key": float64(1), "v": float64(0)}, obj{"__key": float64(2), "v": float64(0)}}, arr{arr{}}, obj{"a": arr{}}, obj{"a": arr{float64(1)}}}
	for _, n := range []string{"f", "g"} {
		for _, iv := range inner {
			V = append(V, obj{n: iv}, obj{"f": float64(1), n: iv})
		}
	}
	if tier == "thorough" {
		// depth 3: longer keyed arrays, nested arrays of arrays, objects in objects in arrays
		V = append(V, seqs(keyed[:4], 4)[1+4+16+64:]...)
		for _, a := range seqs(inner[:6], 2)[1:] {
			V = append(V, a, obj{"f": a}, arr{a})
		}
		V = append(V, seqs([]interface{}{float64(0), float64(1), float64(2), float64(3)}, 4)[1+4+16+64:]...)
	}
	return V
}

func norm(v interface{}) interface{} {
	b, err := json.Marshal(v)
	if err != nil {
		panic(err)
	}
	var out interface{}
	if err := json.Unmarshal(b, &out); err != nil {
		panic(err)
	}
	return out
}

func js(v interface{}) string { b, _ := json.Marshal(v); return string(b) }

// class names the shape of the failing pair so that distinct defects get distinct signatures.
func class(old, new interface{}) string {
	k := func(v interface{}) string {
		switch v.(type) {
		case obj:
			return "object"
		case arr:
			return "array"
		case nil:
			return "null"
		}
		return "scalar"
	}
	return k(old) + "->" + k(new)
}

func checkPair(rp *explore.Report, old, new interface{}) (nontrivial bool) {
	fail := func(clause, format string, a ...interface{}) {
		msg := fmt.Sprintf(format, a...)
		rp.AddViolation(&explore.Violation{Item: fmt.Sprintf("old=%s new=%s", js(old), js(new)),
			Failures:  []explore.Failure{{Clause: clause, Msg: msg}},
			Signature: "c03/" + clause + "/" + class(old, new), Stable: true})
	}
	oc, nc := clone(old), clone(new)
	var d interface{}
	func() {
		defer func() {
			if p := recover(); p != nil {
				fail("diff-panics", "Diff panicked: %v", p)
				d = nil
			}
		}()
		d = diff.Diff(old, new)
	}()
	if !reflect.DeepEqual(old, oc) || !reflect.DeepEqual(new, nc) {
		fail("args-unmodified", "Diff modified its arguments")
	}
	so, sn := norm(diff.StripKey(old)), norm(diff.StripKey(new))
	if d == nil {
		if !reflect.DeepEqual(so, sn) {
			fail("nil-means-equal", "Diff is nil but the stripped values differ")
		}
		return false
	}
	b, err := json.Marshal(d)
	if err != nil {
		fail("delta-serialisable", "json.Marshal(delta): %v", err)
		return true
	}
	var dj interface{}
	if err := json.Unmarshal(b, &dj); err != nil {
		fail("delta-serialisable", "json.Unmarshal(delta): %v", err)
		return true
	}
	b2, _ := json.Marshal(dj)
	if string(b) != string(b2) {
		fail("delta-serialisable", "delta does not survive a JSON round trip: %s vs %s", b, b2)
	}
	var got interface{}
	func() {
		defer func() {
			if p := recover(); p != nil {
				err = fmt.Errorf("panic: %v", p)
			}
		}()
		got, err = merge.Merge(clone(so), clone(dj))
	}()
	if err != nil {
		fail("go-merge", "merge.Merge(%s, %s) failed: %v", js(so), b, err)
	} else if g := norm(got); !reflect.DeepEqual(g, sn) {
		fail("go-merge", "merge.Merge(%s, %s) = %s, want %s", js(so), b, js(g), js(sn))
	}
	jsCases = append(jsCases, jsCase{Old: so, Delta: dj, Want: sn, item: "old=" + js(old) + " new=" + js(new), class: class(old, new)})
	rgot, err := refmerge.Merge(clone(so), clone(dj))
	if err != nil {
		fail("client-merge", "documented-format merge of %s into %s failed: %v", b, js(so), err)
	} else if g := norm(rgot); !reflect.DeepEqual(g, sn) {
		fail("client-merge", "documented-format merge of %s into %s = %s, want %s", b, js(so), js(g), js(sn))
	}
	return true
}

// The repository's own JavaScript client merge (client/src/merge.ts), run by node over every non-empty delta of
// this process's share of the pairs.
type jsCase struct {
	Old   interface{} `json:"o"`
	Delta interface{} `json:"d"`
	Want  interface{} `json:"w"`
	item  string
	class string
}

var jsCases []jsCase

func runJSClient(rp *explore.Report) {
	defer func() { jsCases = nil }()
	node, err := exec.LookPath("node")
	repo := os.Getenv("VERIF_REPO")
	if repo == "" {
		repo = "/repo"
	}
	root := os.Getenv("VERIF_ROOT")
	if root == "" {
		root = "/verif"
	}
	if err != nil {
		rp.AddOutcome("js-client=not-run(no node)")
		return
	}
	dir, err := os.MkdirTemp("", "c03js")
	if err != nil {
		rp.AddOutcome("js-client=not-run(tmp)")
		return
	}
	defer os.RemoveAll(dir)
	var buf bytes.Buffer
	for _, c := range jsCases {
		b, _ := json.Marshal(c)
		buf.Write(b)
		buf.WriteByte('\n')
	}
	file := filepath.Join(dir, "cases.jsonl")
	if err := os.WriteFile(file, buf.Bytes(), 0o644); err != nil {
		rp.AddOutcome("js-client=not-run(tmp)")
		return
	}
	out, err := exec.Command(node, filepath.Join(root, "engine", "js", "mergecheck.js"), filepath.Join(repo, "client", "src", "merge.ts"), file).Output()
	lines := strings.Split(string(out), "\n")
	if err != nil || len(lines) == 0 || lines[0] != "LOADED" {
		rp.AddOutcome("js-client=not-run(load)")
		return
	}
	rp.AddOutcome("js-client=run")
	for _, l := range lines[1:] {
		if l == "" {
			continue
		}
		var m struct {
			N    int
			Got  string
			Want string
		}
		if json.Unmarshal([]byte(l), &m) != nil || m.N >= len(jsCases) {
			continue
		}
		c := jsCases[m.N]
		rp.AddViolation(&explore.Violation{Item: c.item, Signature: "c03/js-client-merge/" + c.class, Stable: true,
			Failures: []explore.Failure{{Clause: "js-client-merge", Msg: fmt.Sprintf("client/src/merge.ts merge(%s, %s) = %s, want %s", js(c.Old), js(c.Delta), m.Got, m.Want)}}})
	}
}

func run(rp *explore.Report, tier string) {
	defer runJSClient(rp)
	V := values(tier)
	var k int64
	for i, v := range V {
		// Diff of a value with itself (same Go object and an equal copy) is empty
		if rp.Mine(int64(i)) {
			if d := diff.Diff(v, v); d != nil {
				rp.AddViolation(&explore.Violation{Item: "self " + js(v), Failures: []explore.Failure{{Clause: "self-diff-empty", Msg: "Diff(x,x) = " + js(d)}}, Signature: "c03/self-diff-empty", Stable: true})
			}
			if d := diff.Diff(v, clone(v)); d != nil {
				rp.AddViolation(&explore.Violation{Item: "copy " + js(v), Failures: []explore.Failure{{Clause: "self-diff-empty", Msg: "Diff(x,copy(x)) = " + js(d)}}, Signature: "c03/self-diff-empty", Stable: true})
			}
			rp.Cases += 2
		}
		for _, w := range V {
			k++
			if !rp.Mine(k) {
				continue
			}
			rp.Cases++
			if checkPair(rp, clone(v), clone(w)) {
				rp.Nontrivial++
				if rp.Nontrivial%5000 == 1 {
					rp.AddSample(map[string]interface{}{"old": v, "new": w, "delta": diff.Diff(clone(v), clone(w))})
				}
			}
		}
	}
	// values that share storage: new is a reslice / an in-place extension of old's array (and the other way round),
	// at the top level, under a field, and as an element of an outer array; same-length aliases must still diff to nil
	for _, v := range V {
		arr, ok := v.([]interface{})
		if !ok || len(arr) == 0 {
			continue
		}
		for cut := 0; cut <= len(arr); cut++ {
			k++
			if !rp.Mine(k) {
				continue
			}
			base := append(make([]interface{}, 0, len(arr)+2), clone(arr).([]interface{})...)
			short := base[:cut]
			longer := append(base, "extra") // extends into base's spare capacity: same storage
			wraps := []func(x interface{}) interface{}{
				func(x interface{}) interface{} { return x },
				func(x interface{}) interface{} { return map[string]interface{}{"f": x, "g": 1.0} },
				func(x interface{}) interface{} { return []interface{}{x, "tail"} },
			}
			for _, wr := range wraps {
				for _, pr := range [][2]interface{}{{base, short}, {short, base}, {base, longer}, {longer, base}, {base, base[:len(base)]}} {
					rp.Cases++
					if checkPair(rp, wr(pr[0]), wr(pr[1])) {
						rp.Nontrivial++
					}
				}
			}
		}
	}
	rp.AddOutcome(fmt.Sprintf("|V|=%d", len(V)))
}

func init() {
	reg.Register(&reg.Harness{Property: "C03", Name: "c03/roundtrip", Level: "exploration", Run: run,
		Rule: "all ordered pairs (old,new) over a generated alphabet V of JSON values (scalars, arrays with duplicates, objects over field names {a,b,$,0,f,g}, __key objects incl. a null key next to the key-less and the keyed object, arrays of keyed objects up to length 3-4, nested arrays/objects, fields appearing with complex values), plus for every array value the pairs in which new shares old's backing storage (reslice to every shorter length, extension into spare capacity, same-length alias; top level / under a field / as an element); oracle: Diff nil => stripped values equal, else Go merge.Merge and an independent implementation of the documented client format applied to StripKey(old) with the JSON-decoded delta give StripKey(new), and so does the repository's JavaScript client merge (client/src/merge.ts run by node over every non-empty delta); Diff(x,x)=nil; arguments unmodified; delta JSON-stable. non-trivial = pairs with a non-empty delta"})
}
