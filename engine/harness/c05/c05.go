// Package c05: batch.Func.Invoke — each caller gets its own result, each
// argument is fetched once, every call returns.
package c05

import (
	"context"
	"errors"
	"fmt"
	"strings"

	"github.com/samsarahq/thunder/batch"
	"github.com/samsarahq/thunder/concurrencylimiter"
	"verif/explore"
	"verif/harness/reg"
	"vrt/rt"
)

type cfg struct {
	K       int  // callers
	Shard   bool // shard by parity
	MaxSize int
	Cancel  bool // canceller thread
	Limit   int  // 0 = no limiter
	Faults  bool // batch function outcome chosen by the explorer
	Funcs   int  // number of distinct Funcs (1 or 2); caller i uses Func i%Funcs
	// Own: the canceller cancels only caller 0's own context (derived from the batching context); the last caller
	// is started by caller 0's thread after its Invoke has returned, with the live batching context
	Own bool
	// Typed: the shard function returns values of two different named integer types with the same number
	// (distinct shards that print alike)
	Typed bool
}

func (c cfg) name() string {
	s := fmt.Sprintf("K=%d shard=%v max=%d cancel=%v limit=%d faults=%v funcs=%d", c.K, c.Shard, c.MaxSize, c.Cancel, c.Limit, c.Faults, c.Funcs)
	if c.Own {
		s += " own=true"
	}
	if c.Typed {
		s += " typed=true"
	}
	return s
}

func parse(name string) cfg {
	var c cfg
	fmt.Sscanf(name, "K=%d shard=%t max=%d cancel=%t limit=%d faults=%t funcs=%d", &c.K, &c.Shard, &c.MaxSize, &c.Cancel, &c.Limit, &c.Faults, &c.Funcs)
	c.Own = strings.Contains(name, "own=true")
	c.Typed = strings.Contains(name, "typed=true")
	return c
}

type call struct {
	fn      int
	args    []int
	outcome int // 0 ok 1 error 2 panic(string) 3 short 4 panic(error) 5 panic(int) 6 panic(struct) 7 results+error 8 some results+error
}

type ret struct {
	done bool
	v    interface{}
	err  error
}

var errBatch = errors.New("batch failed")

type evenShard int
type oddShard int

func f(arg int) int { return arg*10 + 1 }

func item(c cfg) *explore.Item {
	return &explore.Item{Name: c.name(), Bound: -1, Body: func(x *explore.Exec) {
		base := context.Background()
		var cancel context.CancelFunc
		cancelled := false
		if c.Cancel && !c.Own {
			base, cancel = rt.WithCancel(base)
		}
		if c.Limit > 0 {
			base = concurrencylimiter.With(base, c.Limit)
		}
		ctx := batch.WithBatching(base)
		var calls []*call
		var callsObj rt.Obj
		nf := c.Funcs
		if nf == 0 {
			nf = 1
		}
		funcs := make([]*batch.Func, nf)
		for fi := range funcs {
			fi := fi
			funcs[fi] = &batch.Func{MaxSize: c.MaxSize,
				Many: func(ctx context.Context, args []interface{}) ([]interface{}, error) {
					cl := &call{fn: fi}
					for _, a := range args {
						cl.args = append(cl.args, a.(int))
					}
					if r := rt.Cur(); r != nil {
						r.TouchHB("calls", &callsObj)
					}
					calls = append(calls, cl)
					if c.Faults {
						cl.outcome = rt.Choose(9, true, "many-outcome")
					}
					rt.Yield()
					switch cl.outcome {
					case 1:
						return nil, errBatch
					case 2:
						panic("many panics")
					case 4:
						panic(errBatch)
					case 5:
						panic(42)
					case 6:
						panic(struct{ code int }{7})
					}
					res := make([]interface{}, len(args))
					for i, a := range args {
						res[i] = f(a.(int))
					}
					if cl.outcome == 3 {
						return res[:len(res)-1], nil
					}
					if cl.outcome == 7 { // the "partial result and error" convention: all results next to an error
						return res, errBatch
					}
					if cl.outcome == 8 { // some results next to an error
						return res[:len(res)-1], errBatch
					}
					return res, nil
				}}
			if c.Shard {
				funcs[fi].Shard = func(a interface{}) interface{} { return a.(int) % 2 }
			}
			if c.Typed {
				funcs[fi].Shard = func(a interface{}) interface{} {
					if a.(int)%2 == 0 {
						return evenShard(1)
					}
					return oddShard(1)
				}
			}
		}
		rets := make([]ret, c.K)
		own0 := ctx
		if c.Own {
			own0, cancel = rt.WithCancel(ctx)
		}
		var start func(i int)
		start = func(i int) {
			rt.Go(func() {
				cctx := ctx
				if c.Own && i == 0 {
					cctx = own0
				}
				release := func() {}
				if c.Limit > 0 {
					var rel concurrencylimiter.ReleaseFunc
					cctx, rel = concurrencylimiter.Acquire(ctx)
					release = rel
				}
				v, err := funcs[i%nf].Invoke(cctx, i)
				release()
				rets[i] = ret{true, v, err}
				if c.Own && i == 0 {
					start(c.K - 1) // a later call on the live batching context, after the cancelled caller has returned
				}
			})
		}
		for i := 0; i < c.K; i++ {
			if c.Own && i == c.K-1 {
				break
			}
			start(i)
		}
		if c.Cancel {
			rt.Go(func() { cancelled = true; cancel() })
		}
		rt.Quiesce()

		// ---- oracle ----
		seen := map[[2]int]*call{}
		for _, cl := range calls {
			if c.MaxSize > 0 && len(cl.args) > c.MaxSize {
				x.Fail("maxsize", "", "Many called with %d args, MaxSize=%d", len(cl.args), c.MaxSize)
			}
			for _, a := range cl.args {
				if a%nf != cl.fn {
					x.Fail("func-mix", "", "arg %d handed to Func %d", a, cl.fn)
				}
				if (c.Shard || c.Typed) && a%2 != cl.args[0]%2 {
					x.Fail("shard-mix", "", "batch %v mixes shards", cl.args)
				}
				if seen[[2]int{cl.fn, a}] != nil {
					x.Fail("at-most-once", "", "arg %d handed to Many twice", a)
				}
				seen[[2]int{cl.fn, a}] = cl
			}
		}
		ncalls := len(calls)
		for i, r := range rets {
			if !r.done {
				x.Fail("all-return", "", "Invoke(%d) never returned", i)
				continue
			}
			cl := seen[[2]int{i % nf, i}]
			if c.Own && i == c.K-1 && i%nf == 0 {
				// started after the cancelled caller returned, on a live context: must be served normally
				if cl == nil {
					x.Fail("exactly-once", "c05/own/late-call-not-fetched", "Invoke(%d) started after the cancelled caller had returned, its own context is live, yet its argument never reached Many (err=%v)", i, r.err)
					continue
				}
				if cl.outcome == 0 && (r.err != nil || r.v != f(i)) {
					x.Fail("own-result", "c05/own/late-call-result", "Invoke(%d) on a live context returned (%v, %v), want %v", i, r.v, r.err, f(i))
				}
				continue
			}
			if cl == nil {
				if !cancelled {
					x.Fail("exactly-once", "", "arg %d never reached Many although the context was not cancelled", i)
				} else if r.err == nil {
					x.Fail("own-result", "", "Invoke(%d) returned %v without its argument having been fetched", i, r.v)
				}
				continue
			}
			if r.err == nil {
				if cl.outcome != 0 {
					x.Fail("batch-error", "", "Invoke(%d) returned %v although its batch failed (outcome %d)", i, r.v, cl.outcome)
				} else if r.v != f(i) {
					x.Fail("own-result", "", "Invoke(%d) = %v, want %v (batch %v)", i, r.v, f(i), cl.args)
				}
			} else if cl.outcome == 0 && !cancelled {
				x.Fail("own-result", "", "Invoke(%d) failed with %v although its batch %v succeeded", i, r.err, cl.args)
			}
		}
		x.Outcome("calls=%d cancelled=%v", ncalls, cancelled)
		if c.K > 1 {
			x.Nontrivial()
		}
	}}
}

func configs(tier string) []cfg {
	var out []cfg
	ks := []int{2, 3}
	if tier == "thorough" {
		ks = []int{2, 3, 4}
	}
	for _, k := range ks {
		for _, shard := range []bool{false, true} {
			for _, max := range []int{0, 1, 2, 3} {
				if max > k {
					continue
				}
				for _, cancel := range []bool{false, true} {
					for _, limit := range []int{0, 1, 2} {
						for _, faults := range []bool{false, true} {
							if k == 4 && (limit == 2 || (faults && cancel)) {
								continue
							}
							if tier != "thorough" && k == 3 && (limit == 2 || (faults && cancel) || (shard && limit > 0)) {
								continue
							}
							out = append(out, cfg{K: k, Shard: shard, MaxSize: max, Cancel: cancel, Limit: limit, Faults: faults, Funcs: 1})
						}
					}
				}
			}
		}
		out = append(out, cfg{K: k, MaxSize: 2, Funcs: 2}, cfg{K: k, MaxSize: 0, Funcs: 2, Limit: 1})
		// per-caller contexts: one caller cancelled, a later call on the live batching context
		for _, max := range []int{0, 2} {
			out = append(out, cfg{K: k, MaxSize: max, Cancel: true, Funcs: 1, Own: true})
		}
		out = append(out, cfg{K: k, Shard: true, Cancel: true, Funcs: 1, Own: true}, cfg{K: k, Cancel: true, Funcs: 1, Own: true, Limit: 1})
		out = append(out, cfg{K: k, Typed: true, Funcs: 1}, cfg{K: k, Typed: true, MaxSize: 2, Funcs: 1})
	}
	return out
}

func run(rp *explore.Report, tier string) {
	for _, c := range configs(tier) {
		it := item(c)
		it.Split = true
		rp.Explore(it)
	}
}

func init() {
	reg.Register(&reg.Harness{Property: "C05", Name: "c05/batch", Level: "model_checking", Bounds: [2]int{3, 4}, Run: run,
		Item: func(name string) *explore.Item { return item(parse(name)) },
		Rule: "items = callers K x shard function (by parity; by values of two named types that print alike) x MaxSize x canceller thread (cancelling everything, or only one caller's own context with a later call on the live batching context) x concurrency limiter size x batch-function outcome (explorer choice: ok / error / results next to an error / short result / panic with a string, an error, an int or a struct value); all interleavings incl. early firings of the virtual wait-interval and max-duration timers within the deviation bound, on the real batch.Func.Invoke; non-trivial = K>1 concurrent callers"})
}
