package c06

import (
	"context"
	"fmt"
	"strings"

	"github.com/samsarahq/thunder/graphql"
	"verif/explore"
	"verif/fix/fedfix"
	"verif/fix/gqlfix"
	"verif/harness/reg"
	"vrt/rt"
)

// Object keys beyond the float64-exact range (int64 ids such as 2^53+1 next to 2^53). One combined server handles
// them; through the gateway a key crosses a service hop as a query argument. A divergence on a query whose plan has
// a hop is the recorded known finding (arguments are decoded as float64 on the receiving service); a divergence on
// a query answered by one service alone is an ordinary violation.
func runBigKeys(rp *explore.Report, tier string) {
	d := fedfix.BigKeyData()
	mono := fedfix.Build(d, nil, "").MustBuild()
	var as []fedfix.Assignment
	for _, moved := range append([]string{""}, fedfix.ExtraFields...) {
		a := fedfix.Assignment{}
		for _, r := range fedfix.RootFields {
			a[r] = "s1"
		}
		for _, f := range fedfix.ExtraFields {
			a[f] = "s1"
		}
		if moved != "" {
			a[moved] = "s2"
		}
		as = append(as, a)
	}
	var k int64
	for _, a := range as {
		k++
		if !rp.Mine(k) {
			continue
		}
		a := a
		res := rt.Execute(rt.Config{MaxSteps: 50000000, MaxClock: 10000000}, func() {
			ctx, cancel := rt.WithCancel(context.Background())
			defer cancel()
			g, err := fedfix.NewGateway(ctx, d, a, nil)
			if err != nil {
				rp.AddViolation(&explore.Violation{Item: a.String(), Stable: true, Signature: "c06/bigkeys/gateway-build",
					Failures: []explore.Failure{{Clause: "schemas-merge", Msg: fmt.Sprintf("gateway construction failed: %v", err)}}})
				return
			}
			for qi, q := range queries {
				if strings.HasPrefix(q, "mutation") {
					continue
				}
				if _, ok := unionNameInlined[q]; ok {
					continue
				}
				rp.Cases++
				rp.Nontrivial++
				want, werr := gqlfix.ExecExact(context.Background(), mono, gqlfix.FIFO{}, q, nil)
				if werr != nil {
					panic(fmt.Sprintf("monolith rejects %s: %v", q, werr))
				}
				for _, r := range g.Recorders {
					r.Requests = nil
				}
				var got interface{}
				var gerr error
				func() {
					defer func() {
						if p := recover(); p != nil {
							gerr = fmt.Errorf("PANIC: %v", p)
						}
					}()
					parsed, err := graphql.Parse(q, nil)
					if err != nil {
						gerr = err
						return
					}
					got, _, gerr = g.Exec.Execute(ctx, parsed, nil)
				}()
				hops := 0
				for _, r := range g.Recorders {
					for _, rq := range r.Requests {
						for _, sel := range rq.SelectionSet.Selections {
							if sel.Name == "_federation" {
								hops++
							}
						}
					}
				}
				// compare as text: the ids are not float64-exact
				gs, ws := gqlfix.JS(got), gqlfix.JS(want)
				if gerr == nil && gs == ws {
					continue
				}
				sig := fmt.Sprintf("c06/bigkeys/gateway!=monolith/q%d", qi)
				if hops > 0 {
					sig = "c06/known/int64-key-beyond-float64-range-on-a-hop"
				} else if gerr == nil && gqlfix.JS(dropExtraTypenameText(got, want)) == ws {
					sig = "c06/known/extra-__typename-under-union"
				}
				rp.AddViolation(&explore.Violation{Item: fmt.Sprintf("bigkeys %s query=%s", a.String(), q), Stable: true, Signature: sig,
					Failures: []explore.Failure{{Clause: "gateway==monolith", Msg: fmt.Sprintf("gateway gives %.300s (err=%.200v), the combined server gives %.300s; hops=%d", gs, gerr, ws, hops)}}})
			}
		})
		rp.Execs++
		rp.Transitions += int64(res.Steps)
		rp.AddState(res.HBFinal)
		if res.Deadlock || len(res.Panics) > 0 || res.StepCap || res.ClockCap {
			rp.AddViolation(&explore.Violation{Item: a.String(), Stable: true, Signature: "c06/bigkeys/gateway-blocks-or-panics",
				Failures: []explore.Failure{{Clause: "request-returns", Msg: fmt.Sprintf("a gateway request did not complete: deadlock=%v panics=%d", res.Deadlock, len(res.Panics))}}})
		}
	}
	rp.AddOutcome(fmt.Sprintf("bigkey-assignments=%d", len(as)))
}

// dropExtraTypenameText is dropExtraTypename on the exact (not float-normalised) values.
func dropExtraTypenameText(got, want interface{}) interface{} {
	var g, w interface{}
	g, _ = gqlfix.NormExact(got)
	w, _ = gqlfix.NormExact(want)
	return dropExtraTypename(g, w)
}

func init() {
	reg.Register(&reg.Harness{Property: "C06", Name: "c06/big-keys", Level: "model_checking", Run: runBigKeys,
		Rule: "object ids beyond the float64-exact range (2^53+1 next to 2^53): all fields on one service and each of the 10 non-key fields moved to a second service x every query (default schedule); oracle: gateway JSON text == one combined server's; a divergence on a plan with a service hop is the recorded known finding, without a hop a violation"})
}
