// Package c06: federation is transparent — the gateway answers like one combined server.
package c06

import (
	"context"
	"fmt"
	"reflect"
	"strings"

	"github.com/samsarahq/thunder/federation"
	"github.com/samsarahq/thunder/graphql"
	"verif/explore"
	"verif/fix/fedfix"
	"verif/fix/gqlfix"
	"verif/harness/reg"
	"vrt/rt"
)

var queries = []string{
	`{ users { id name email age secret } }`,
	`{ users { id orgId } devices { id isOn } admins { id power hiding } }`,
	`{ users { device { id temp owner { name email } } } }`,
	`{ users { devices { id tags temp } name } }`,
	`{ user(id: 1) { boss { boss { name age } } } }`,
	`{ user(id: 99) { name age } nobody { email } noUsers { email device { temp } } }`,
	`{ devices { id owner { id devices { temp } } tags } }`,
	`{ everyone { __typename ... on User { name email } ... on Admin { power hiding } } }`,
	`{ everyone { ... on User { id } ... on User { age } ... on Admin { id } } }`,
	`{ users { device { id } device { temp } } users { email } }`,
	`{ u: users { e: email a: age d: device { t: temp i: id } } }`,
	`{ users { ...UF } } fragment UF on User { name email device { ...DF } } fragment DF on Device { id temp }`,
	`{ users { ...UF ...UF id } user(id: 2) { ...UF } } fragment UF on User { age secret }`,
	`{ users { name @skip(if: true) email @include(if: true) age @skip(if: false) } }`,
	`{ users { device @include(if: false) { temp } id } }`,
	`{ users { device { owner { name } } device { owner { email } } } }`,
	`{ users { device { owner { name } temp } device { owner { email age } id } } }`,
	`{ a: user(id: 1) { email } b: user(id: 2) { email age } }`,
	`{ users { boss { device { temp owner { boss { name } } } } } }`,
	`{ users { ... on User { email ... on User { age } } } }`,
	`{ devices { owner { secret boss { secret } } temp } }`,
	`{ users { id } }`,
	`{ users { email } }`,
	`{ users { __typename id email } }`,
	`{ everyone { ... on User { device { temp } boss { email } } } }`,
	`{ everyone { ...EU ...EA } } fragment EU on User { name age } fragment EA on Admin { hiding }`,
	`{ users { devices { owner { devices { id } } } } }`,
	`{ admins { hiding } users { secret } devices { tags } }`,
	`{ users { device { id } device { owner { name } owner { email } } } }`,
	`{ users { id } users { boss { name } boss { age } boss { boss { id } } } }`,
	`{ devices { owner { id } } devices { owner { email } tags owner { age } } }`,
	// fragments whose type condition is the union itself
	`{ everyone { ...People } } fragment People on Everyone { ... on Admin { id hiding } ... on User { id email secret } }`,
	`{ everyone { __typename ... on Everyone { ... on User { name age } ... on Admin { power } } } }`,
	// __typename of the root object, alone, among other root fields, aliased
	`{ __typename }`,
	`{ __typename users { id email } }`,
	`{ users { id } t: __typename devices { temp } }`,
	// a mutation whose result needs fields of other services (the hops after it are queries)
	`mutation { pickUser(id: 1) { id name email age device { temp } } }`,
	`mutation { pickUser(id: 2) { boss { email secret } devices { tags owner { age } } } }`,
	`mutation { pickUser(id: 99) { email } }`,
	// fragments in a mutation: on a payload type only the mutation returns, and on the Mutation root itself
	`mutation { pickAndReport(id: 1) { ok ... on PickReport { picked } ...PR } } fragment PR on PickReport { ok }`,
	`mutation { ... on Mutation { pickUser(id: 2) { id name } } }`,
}

// one named fragment spread at two sites, with several duplicated aliases at one of them
func init() {
	xs := []string{"id", "temp", "tags"}
	ys := []string{"name", "age", "email"}
	for _, x1 := range xs {
		for _, x2 := range xs {
			for _, y1 := range ys[:2] {
				for _, y2 := range ys[1:] {
					if x1 == x2 || y1 == y2 {
						continue
					}
					fr := fmt.Sprintf(" fragment F on User { id m: device { %s } n: boss { %s } }", x1, y1)
					in := fmt.Sprintf("... on User { m: device { %s } n: boss { %s } }", x2, y2)
					queries = append(queries,
						"{ a: user(id: 1) { ...F "+in+" } b: user(id: 2) { ...F } }"+fr,
						"{ b: user(id: 2) { ...F } a: user(id: 1) { "+in+" ...F } }"+fr,
						"{ users { ...F "+in+" } u: user(id: 1) { ...F } }"+fr)
				}
			}
		}
	}
}

func normNumbers(v interface{}) interface{} { n, _ := gqlfix.Norm(v); return n }

// A fragment whose type condition is the union's own name applies to every member. The gateway's normaliser honours
// that; the single-server executor silently ignores such a fragment (known finding). For these queries the gateway is
// judged against the single server's answer to the equivalent query with the fragment inlined.
var unionNameInlined = map[string]string{
	`{ everyone { ...People } } fragment People on Everyone { ... on Admin { id hiding } ... on User { id email secret } }`: `{ everyone { ... on Admin { id hiding } ... on User { id email secret } } }`,
	`{ everyone { __typename ... on Everyone { ... on User { name age } ... on Admin { power } } } }`:                       `{ everyone { __typename ... on User { name age } ... on Admin { power } } }`,
}

// dropExtraTypename removes "__typename" keys from got wherever want (the same position in the
// combined server's answer) does not have one.
func dropExtraTypename(got, want interface{}) interface{} {
	switch g := got.(type) {
	case map[string]interface{}:
		w, _ := want.(map[string]interface{})
		out := map[string]interface{}{}
		for k, v := range g {
			if k == "__typename" {
				if _, ok := w[k]; !ok {
					continue
				}
			}
			var wv interface{}
			if w != nil {
				wv = w[k]
			}
			out[k] = dropExtraTypename(v, wv)
		}
		return out
	case []interface{}:
		w, _ := want.([]interface{})
		out := make([]interface{}, len(g))
		for i := range g {
			var wv interface{}
			if i < len(w) {
				wv = w[i]
			}
			out[i] = dropExtraTypename(g[i], wv)
		}
		return out
	}
	return got
}

type asg struct {
	a fedfix.Assignment
	n int
}

func assignments(tier string) []fedfix.Assignment {
	var out []fedfix.Assignment
	services := []string{"s1", "s2"}
	rootSplits := []map[string]string{
		{"users": "s1", "user": "s1", "devices": "s1", "everyone": "s1", "admins": "s1", "nobody": "s1", "noUsers": "s1"},
		{"users": "s1", "user": "s2", "devices": "s2", "everyone": "s1", "admins": "s2", "nobody": "s2", "noUsers": "s1"},
	}
	if tier == "thorough" {
		services = []string{"s1", "s2", "s3"}
		rootSplits = append(rootSplits, map[string]string{"users": "s3", "user": "s1", "devices": "s2", "everyone": "s3", "admins": "s1", "nobody": "s2", "noUsers": "s3"})
	}
	n := len(fedfix.ExtraFields)
	total := 1
	for i := 0; i < n; i++ {
		total *= len(services)
	}
	for _, rs := range rootSplits {
		for code := 0; code < total; code++ {
			if tier == "thorough" && code%7 != 0 && len(services) == 3 {
				continue // every seventh of the 3^10 assignments (the two-service space is covered exhaustively by quick)
			}
			a := fedfix.Assignment{}
			for k, v := range rs {
				a[k] = v
			}
			c := code
			for _, f := range fedfix.ExtraFields {
				a[f] = services[c%len(services)]
				c /= len(services)
			}
			out = append(out, a)
		}
	}
	return out
}

// renamed gives the same distribution under other service names (the outcome must not depend on how services are
// named: names with the separator the federation fields use, a name that is a prefix of another).
func renamed(a fedfix.Assignment, names map[string]string) fedfix.Assignment {
	b := fedfix.Assignment{}
	for f, ss := range a {
		var parts []string
		for _, s := range strings.Split(ss, "+") {
			parts = append(parts, names[s])
		}
		b[f] = strings.Join(parts, "+")
	}
	return b
}

func runSeq(rp *explore.Report, tier string) {
	datasets := fedfix.DataSets()
	as := assignments(tier)
	// three services, the object's owner in the middle: one parent hops to a service with the full key and to one
	// that identifies the object by id alone (the parent is asked for the union of both key sets)
	for _, owner := range []string{"s2", "s3"} {
		a := fedfix.Assignment{"users": owner, "user": owner, "devices": "s1", "everyone": owner, "admins": "s1", "nobody": owner, "noUsers": owner}
		others := map[string][]string{"s2": {"s1", "s3"}, "s3": {"s1", "s2"}}[owner]
		for i, f := range fedfix.ExtraFields {
			a[f] = others[i%2]
		}
		as = append(as, a)
	}
	for i, naming := range []map[string]string{{"s1": "core_api", "s2": "user_data", "s3": "x"}, {"s1": "a", "s2": "a_b", "s3": "a_b_c"}, {"s1": "zeta", "s2": "alpha", "s3": "m"}} {
		for _, j := range []int{1, 5, 11, 64, 333, 1029} {
			if j < len(as) {
				as = append(as, renamed(as[(j+i)%len(as)], naming))
			}
		}
	}
	// monolith answers
	type key struct{ d, q int }
	want := map[key]interface{}{}
	wantInlined := map[key]interface{}{}
	wantErr := map[key]error{}
	for di, d := range datasets {
		mono := fedfix.Build(d, nil, "").MustBuild()
		for qi, q := range queries {
			res, err := gqlfix.Exec(context.Background(), mono, gqlfix.FIFO{}, q, nil)
			want[key{di, qi}], wantErr[key{di, qi}] = res, err
			if err != nil {
				panic(fmt.Sprintf("monolith rejects %s: %v", q, err))
			}
			if inl, ok := unionNameInlined[q]; ok {
				wantInlined[key{di, qi}], err = gqlfix.Exec(context.Background(), mono, gqlfix.FIFO{}, inl, nil)
				if err != nil {
					panic(fmt.Sprintf("monolith rejects %s: %v", inl, err))
				}
			}
		}
	}
	var k int64
	for ai, a := range as {
		di := ai % len(datasets)
		k++
		if !rp.Mine(k) {
			continue
		}
		d := datasets[di]
		res := rt.Execute(rt.Config{MaxSteps: 50000000, MaxClock: 10000000}, func() {
			ctx, cancel := rt.WithCancel(context.Background())
			defer cancel()
			g, err := fedfix.NewGateway(ctx, d, a, nil)
			if err != nil {
				rp.AddViolation(&explore.Violation{Item: a.String(), Stable: true, Signature: "c06/gateway-build",
					Failures: []explore.Failure{{Clause: "schemas-merge", Msg: fmt.Sprintf("gateway construction failed: %v", err)}}})
				return
			}
			for qi, q := range queries {
				rp.Cases++
				rp.Nontrivial++
				for _, r := range g.Recorders {
					r.Requests = nil
				}
				var got interface{}
				var gerr error
				func() {
					defer func() {
						if p := recover(); p != nil {
							gerr = fmt.Errorf("PANIC: %v", p)
						}
					}()
					parsed, err := graphql.Parse(q, nil)
					if err != nil {
						gerr = err
						return
					}
					picked := d.Picked
					got, _, gerr = g.Exec.Execute(ctx, parsed, nil)
					if n := d.Picked - picked; gerr == nil && strings.HasPrefix(q, "mutation") && n != 1 {
						gerr = fmt.Errorf("the mutation ran %d times", n)
					}
				}()
				if rp.Cases%4999 == 1 {
					rp.AddSample(map[string]interface{}{"assignment": a.String(), "query": q})
				}
				w := want[key{di, qi}]
				wi, hasInlined := wantInlined[key{di, qi}]
				dropsUnionNameFragment := hasInlined && gerr == nil && !reflect.DeepEqual(dropExtraTypename(normNumbers(got), wi), wi)
				if gerr != nil || !reflect.DeepEqual(normNumbers(got), w) || dropsUnionNameFragment {
					sig := fmt.Sprintf("c06/gateway!=monolith/q%d", qi)
					if gerr == nil && reflect.DeepEqual(dropExtraTypename(normNumbers(got), w), w) {
						sig = "c06/known/extra-__typename-under-union"
					}
					if hasInlined && gerr == nil && !dropsUnionNameFragment {
						sig = "c06/known/single-server-ignores-fragment-on-union-name"
					} else if dropsUnionNameFragment {
						sig = fmt.Sprintf("c06/gateway!=monolith(inlined)/q%d", qi)
						w = wi
					}
					rp.AddViolation(&explore.Violation{Item: fmt.Sprintf("data=%d %s query=%s", di, a.String(), q), Stable: true,
						Signature: sig,
						Failures:  []explore.Failure{{Clause: "gateway==monolith", Msg: fmt.Sprintf("gateway gives %s (err=%v), the combined server gives %s", gqlfix.JS(got), gerr, gqlfix.JS(w))}}})
				}
				// every sub-query must be valid for the schema of the service that received it
				for svc, r := range g.Recorders {
					for _, rq := range r.Requests {
						typ := g.Schemas[svc].Query
						if rq.Kind == "mutation" {
							typ = g.Schemas[svc].Mutation
						}
						// validate what actually travels: the protobuf-encoded query
						wire, err := federation.MarshalQuery(rq)
						var onWire *graphql.Query
						if err == nil {
							onWire, err = federation.UnmarshalQuery(wire)
						}
						if err == nil {
							err = graphql.PrepareQuery(context.Background(), typ, onWire.SelectionSet)
						}
						if err == nil {
							if msg := fedfix.StrictKeys(g.Schemas[svc], rq); msg != "" {
								err = fmt.Errorf("%s", msg)
							}
						}
						if err != nil {
							rp.AddViolation(&explore.Violation{Item: fmt.Sprintf("%s query=%s", a.String(), q), Stable: true,
								Signature: fmt.Sprintf("c06/subquery-invalid/q%d", qi),
								Failures:  []explore.Failure{{Clause: "subquery-fits-service", Msg: fmt.Sprintf("service %s received a sub-query it does not support: %v", svc, err)}}})
						}
					}
				}
			}
		})
		rp.Execs++ // one execution under the scheduler (default schedule) per assignment
		rp.Transitions += int64(res.Steps)
		rp.AddState(res.HBFinal)
		if res.Deadlock || len(res.Panics) > 0 || res.StepCap || res.ClockCap {
			msg := fmt.Sprintf("deadlock=%v blocked=%v stepcap=%v clockcap=%v", res.Deadlock, res.Blocked, res.StepCap, res.ClockCap)
			for _, p := range res.Panics {
				msg += " panic: " + p.Value
			}
			rp.AddViolation(&explore.Violation{Item: a.String(), Stable: true, Signature: "c06/gateway-blocks-or-panics",
				Failures: []explore.Failure{{Clause: "request-returns", Msg: "a gateway request did not complete: " + msg}}})
		}
	}
	rp.AddOutcome(fmt.Sprintf("assignments=%d queries=%d", len(as), len(queries)))
	_ = strings.Join
}

func init() {
	reg.Register(&reg.Harness{Property: "C06", Name: "c06/partitions", Level: "model_checking", Run: runSeq,
		Rule: "sequential part: every assignment of the 10 non-key fields of User/Device/Admin to services {s1,s2} (thorough: a seventh of all assignments to {s1,s2,s3}) x root-field splits x 2 data sets x " + fmt.Sprint(len(queries)) + " queries (one named fragment spread at two sites next to differing same-alias siblings, duplicate aliases with different sub-selections at two levels, repeated and nested fragments, unions with several fragments per member, directives, arguments, nulls, empty lists, multi-hop plans); services built with schemabuilder and served through federation.Server/DirectExecutorClient behind the real Executor. Oracle: gateway JSON == the same resolvers on one server (numbers normalised); every sub-query received by a service is accepted by PrepareQuery on that service's own schema"})
}
