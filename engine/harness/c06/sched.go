package c06

import (
	"context"
	"fmt"
	"reflect"
	"sort"
	"strings"

	"github.com/samsarahq/thunder/federation"
	"github.com/samsarahq/thunder/graphql"
	"verif/explore"
	"verif/fix/fedfix"
	"verif/fix/gqlfix"
	"verif/harness/reg"
	"vrt/rt"
)

// ---------------------------------------------------------------------------------------------------------------
// c06/selector: fields served by several services x every choice of the service that resolves them.
// (The planner's own choice iterates a Go map - arbitrary; enumerating a ServiceSelector covers every outcome.)
// ---------------------------------------------------------------------------------------------------------------

func monoAnswers(d *fedfix.Data, qs []string) []interface{} {
	mono := fedfix.Build(d, nil, "").MustBuild()
	out := make([]interface{}, len(qs))
	for i, q := range qs {
		res, err := gqlfix.Exec(context.Background(), mono, gqlfix.FIFO{}, q, nil)
		if err != nil {
			panic(fmt.Sprintf("monolith rejects %s: %v", q, err))
		}
		out[i] = res
	}
	return out
}

// checkSubQueries validates every request the services received (after the protobuf round trip) against the
// receiving service's own schema.
func checkSubQueries(g *fedfix.Gateway, fail func(clause, sig, msg string), qsig string) {
	var svcs []string
	for svc := range g.Recorders {
		svcs = append(svcs, svc)
	}
	sort.Strings(svcs)
	for _, svc := range svcs {
		for _, rq := range g.Recorders[svc].Requests {
			typ := g.Schemas[svc].Query
			if rq.Kind == "mutation" {
				typ = g.Schemas[svc].Mutation
			}
			wire, err := federation.MarshalQuery(rq)
			var onWire *graphql.Query
			if err == nil {
				onWire, err = federation.UnmarshalQuery(wire)
			}
			if err == nil {
				err = graphql.PrepareQuery(context.Background(), typ, onWire.SelectionSet)
			}
			if err != nil {
				fail("subquery-fits-service", "c06/subquery-invalid/"+qsig, fmt.Sprintf("service %s received a sub-query it does not support: %v", svc, err))
			} else if msg := fedfix.StrictKeys(g.Schemas[svc], rq); msg != "" {
				fail("subquery-fits-service", "c06/subquery-key-fields/"+qsig, "service "+svc+": "+msg)
			}
		}
	}
}

func multiAssignments(tier string) []fedfix.Assignment {
	roots := map[string]string{"users": "s1", "user": "s2", "devices": "s2", "everyone": "s1", "admins": "s2", "nobody": "s2", "noUsers": "s1"}
	bases := []int{0b0101010101, 0b1100110010}
	if tier == "thorough" {
		bases = append(bases, 0b0011100011, 0b1111100000)
	}
	var out []fedfix.Assignment
	n := len(fedfix.ExtraFields)
	for _, base := range bases {
		// every set of three extra fields served by both services
		for i := 0; i < n; i++ {
			for j := i + 1; j < n; j++ {
				for k := j + 1; k < n; k++ {
					a := fedfix.Assignment{}
					for f, s := range roots {
						a[f] = s
					}
					for x, f := range fedfix.ExtraFields {
						a[f] = []string{"s1", "s2"}[(base>>x)&1]
						if x == i || x == j || x == k {
							a[f] = "s1+s2"
						}
					}
					out = append(out, a)
				}
			}
		}
		// root fields served by both
		a := fedfix.Assignment{}
		for f := range roots {
			a[f] = "s1+s2"
		}
		for x, f := range fedfix.ExtraFields {
			a[f] = []string{"s1", "s2"}[(base>>x)&1]
		}
		out = append(out, a)
	}
	return out
}

func runSelector(rp *explore.Report, tier string) {
	datasets := fedfix.DataSets()
	qs := queries
	if tier != "thorough" {
		qs = queries[:31]
	}
	want := make([][]interface{}, len(datasets))
	wantInlined := make([]map[int]interface{}, len(datasets))
	for di, d := range datasets {
		want[di] = monoAnswers(d, qs)
		wantInlined[di] = map[int]interface{}{}
		for qi, q := range qs {
			if inl, ok := unionNameInlined[q]; ok {
				wantInlined[di][qi] = monoAnswers(d, []string{inl})[0]
			}
		}
	}
	var k int64
	for ai, a := range multiAssignments(tier) {
		k++
		if !rp.Mine(k) {
			continue
		}
		di := ai % len(datasets)
		var multi []string
		for f, s := range a {
			if strings.Contains(s, "+") {
				multi = append(multi, f)
			}
		}
		sort.Strings(multi)
		nsel := 1 << len(multi)
		if len(multi) > 3 { // the all-roots assignment: all-s1, all-s2, alternating
			nsel = 3
		}
		for code := 0; code < nsel; code++ {
			pick := map[string]string{}
			for i, f := range multi {
				bit := (code >> i) & 1
				if len(multi) > 3 {
					bit = []int{0, 1, i & 1}[code]
				}
				name := f
				typ := "Query"
				if p := strings.SplitN(f, ".", 2); len(p) == 2 {
					typ, name = p[0], p[1]
				}
				pick[typ+"."+name] = []string{"s1", "s2"}[bit]
			}
			selector := func(typeName, fieldName string) string { return pick[typeName+"."+fieldName] }
			item := fmt.Sprintf("data=%d %s selector=%v", di, a.String(), pick)
			res := rt.Execute(rt.Config{MaxSteps: 50000000, MaxClock: 10000000}, func() {
				ctx, cancel := rt.WithCancel(context.Background())
				defer cancel()
				g, err := fedfix.NewGateway(ctx, datasets[di], a, selector)
				if err != nil {
					rp.AddViolation(&explore.Violation{Item: item, Stable: true, Signature: "c06/selector/gateway-build",
						Failures: []explore.Failure{{Clause: "schemas-merge", Msg: fmt.Sprintf("gateway construction failed: %v", err)}}})
					return
				}
				for qi, q := range qs {
					rp.Cases++
					rp.Nontrivial++
					for _, r := range g.Recorders {
						r.Requests = nil
					}
					var got interface{}
					var gerr error
					func() {
						defer func() {
							if p := recover(); p != nil {
								gerr = fmt.Errorf("PANIC: %v", p)
							}
						}()
						parsed, err := graphql.Parse(q, nil)
						if err != nil {
							gerr = err
							return
						}
						got, _, gerr = g.Exec.Execute(ctx, parsed, nil)
					}()
					if rp.Cases%2999 == 1 {
						rp.AddSample(map[string]interface{}{"assignment": a.String(), "selector": fmt.Sprint(pick), "query": q})
					}
					w := want[di][qi]
					wi, hasInlined := wantInlined[di][qi]
					dropsUnionNameFragment := hasInlined && gerr == nil && !reflect.DeepEqual(dropExtraTypename(normNumbers(got), wi), wi)
					if gerr != nil || !reflect.DeepEqual(normNumbers(got), w) || dropsUnionNameFragment {
						sig := fmt.Sprintf("c06/selector/gateway!=monolith/q%d", qi)
						if gerr == nil && reflect.DeepEqual(dropExtraTypename(normNumbers(got), w), w) {
							sig = "c06/known/extra-__typename-under-union"
						}
						if hasInlined && gerr == nil && !dropsUnionNameFragment {
							sig = "c06/known/single-server-ignores-fragment-on-union-name"
						} else if dropsUnionNameFragment {
							w = wi
						}
						rp.AddViolation(&explore.Violation{Item: item + " query=" + q, Stable: true, Signature: sig,
							Failures: []explore.Failure{{Clause: "gateway==monolith", Msg: fmt.Sprintf("gateway gives %s (err=%v), the combined server gives %s", gqlfix.JS(got), gerr, gqlfix.JS(w))}}})
					}
					checkSubQueries(g, func(clause, sig, msg string) {
						rp.AddViolation(&explore.Violation{Item: item + " query=" + q, Stable: true, Signature: sig, Failures: []explore.Failure{{Clause: clause, Msg: msg}}})
					}, fmt.Sprintf("selector/q%d", qi))
				}
			})
			rp.Execs++
			rp.Transitions += int64(res.Steps)
			rp.AddState(res.HBFinal)
			if res.Deadlock || len(res.Panics) > 0 || res.StepCap || res.ClockCap {
				rp.AddViolation(&explore.Violation{Item: item, Stable: true, Signature: "c06/selector/gateway-blocks-or-panics",
					Failures: []explore.Failure{{Clause: "request-returns", Msg: fmt.Sprintf("deadlock=%v blocked=%v stepcap=%v clockcap=%v panics=%v", res.Deadlock, res.Blocked, res.StepCap, res.ClockCap, res.Panics)}}})
			}
		}
	}
	rp.AddOutcome(fmt.Sprintf("multi-assignments=%d queries=%d", len(multiAssignments(tier)), len(qs)))
}

// ---------------------------------------------------------------------------------------------------------------
// c06/refresh: a request concurrent with schema refreshes (what the poll goroutine does on its ticker), every
// interleaving within the deviation bound, with the map-access race monitor on.
// ---------------------------------------------------------------------------------------------------------------

type rcfg struct {
	Asg     int    // index into refreshAssignments
	Query   int    // index into refreshQueries
	N       int    // number of refreshes
	Change  bool   // the refresh finds a changed deployment: service s2 now also serves the fields of Gain
	Twice   bool   // two concurrent requests
	Introsp bool   // the second request is an introspection query (served by the client that refresh replaces)
	Down    bool   // service s2 is unreachable while the refresh fetches the schemas (a transient fault); a further request follows once it is back
	name    string // cached
}

var refreshQueries = []string{
	`{ users { id email device { temp owner { name age } } } }`,
	`{ devices { id owner { email boss { secret } } tags } admins { hiding } }`,
	`{ users { device { id } device { owner { name } owner { email } } } }`,
	`{ a: user(id: 1) { email age } b: user(id: 2) { boss { email } } }`,
	// root fields on different services: sibling sub-plans stitch into one result object
	`{ users { id email age } devices { id temp } admins { id hiding } }`,
	// fields of one object on two other services: sibling sub-plans stitch into the same objects
	`{ users { id email age boss { secret email } } }`,
}

var refreshAssignments = []fedfix.Assignment{
	{"users": "s1", "user": "s2", "devices": "s2", "everyone": "s1", "admins": "s2", "nobody": "s2", "noUsers": "s1",
		"User.email": "s2", "User.age": "s1", "User.secret": "s2", "User.device": "s1", "User.devices": "s2", "User.boss": "s1", "Device.temp": "s2", "Device.owner": "s1", "Device.tags": "s2", "Admin.hiding": "s1"},
	{"users": "s1", "user": "s1", "devices": "s1", "everyone": "s1", "admins": "s1", "nobody": "s1", "noUsers": "s1",
		"User.email": "s2", "User.age": "s2", "User.secret": "s1", "User.device": "s2", "User.devices": "s1", "User.boss": "s2", "Device.temp": "s1", "Device.owner": "s2", "Device.tags": "s1", "Admin.hiding": "s2"},
	// three services
	{"users": "s1", "user": "s1", "devices": "s2", "everyone": "s1", "admins": "s3", "nobody": "s1", "noUsers": "s1",
		"User.email": "s2", "User.age": "s3", "User.secret": "s3", "User.device": "s1", "User.devices": "s1", "User.boss": "s1", "Device.temp": "s3", "Device.owner": "s2", "Device.tags": "s2", "Admin.hiding": "s1"},
}

// after the change every field that only s1 served is served by s2 as well (a rolling move, first half)
func gained(a fedfix.Assignment) fedfix.Assignment {
	b := fedfix.Assignment{}
	for f, s := range a {
		b[f] = s
		if s == "s1" && strings.Contains(f, ".") {
			b[f] = "s1+s2"
		}
	}
	return b
}

func (c rcfg) String() string {
	s := fmt.Sprintf("asg=%d query=%d refreshes=%d change=%t twice=%t introspection=%t", c.Asg, c.Query, c.N, c.Change, c.Twice, c.Introsp)
	if c.Down {
		s += " down=true"
	}
	return s
}

func parseRcfg(s string) rcfg {
	var c rcfg
	s = strings.NewReplacer("asg=", "", "query=", "", "refreshes=", "", "change=", "", "twice=", "", "introspection=", "", "down=", "").Replace(s)
	fmt.Sscan(s, &c.Asg, &c.Query, &c.N, &c.Change, &c.Twice, &c.Introsp, &c.Down)
	return c
}

const introspectionProbe = `{ __schema { queryType { name } } }`

// cachedSyncer answers FetchPlannerAndSchema from a per-item cache keyed by the deployment version the gateway
// currently sees. Planners and schemas are immutable; fetching them (introspection of every service + schema merge)
// costs ~100 ms, and what is explored here is how *installing* a planner interleaves with requests, not the fetch.
// The cache is filled by one warm-up execution, so every explored execution takes the same steps.
type cachedSyncer struct {
	inner   federation.SchemaSyncer
	version *int
	cache   map[int]*fetched
}

type fetched struct {
	p   *federation.Planner
	s   *graphql.Schema
	err error
}

func (c *cachedSyncer) FetchPlannerAndSchema(ctx context.Context) (*federation.Planner, *graphql.Schema, error) {
	if f := c.cache[*c.version]; f != nil {
		return f.p, f.s, f.err
	}
	p, s, err := c.inner.FetchPlannerAndSchema(ctx)
	c.cache[*c.version] = &fetched{p, s, err}
	return p, s, err
}

func refreshItem(c rcfg) *explore.Item {
	d := fedfix.DataSets()[0]
	q := refreshQueries[c.Query]
	want := monoAnswers(d, []string{q})[0]
	a := refreshAssignments[c.Asg]
	dep0, err := fedfix.Deploy(d, a)
	if err != nil {
		panic(err)
	}
	dep1, err := fedfix.Deploy(d, gained(a))
	if err != nil {
		panic(err)
	}
	cache := map[int]*fetched{}
	it := refreshItemOn(c, q, want, dep0, dep1, cache)
	// warm-up: fill the planner cache for both deployment versions
	rt.Execute(rt.Config{MaxSteps: 5000000, MaxClock: 50}, func() { it.Body(&explore.Exec{}) })
	return it
}

func refreshItemOn(c rcfg, q string, want interface{}, dep0, dep1 *fedfix.Deployment, cache map[int]*fetched) *explore.Item {
	bound := -1
	if c.Twice || c.N > 1 || c.Down {
		bound = 2 // three threads or two refreshes: the same bound in both tiers
	}
	return &explore.Item{Name: c.String(), Bound: bound, MaxSteps: 400000, MaxClock: 50, Race: true, Body: func(x *explore.Exec) {
		ctx, cancel := rt.WithCancel(context.Background())
		defer cancel()
		var g *fedfix.Gateway
		var err error
		version := 0
		rt.NoBranch(func() {
			g, err = fedfix.NewGatewayOn(ctx, dep0, func(in federation.SchemaSyncer) federation.SchemaSyncer {
				return &cachedSyncer{inner: in, version: &version, cache: cache}
			})
		})
		if err != nil {
			x.Fail("schemas-merge", "c06/refresh/gateway-build", "gateway construction failed: %v", err)
			return
		}
		for _, r := range g.Recorders {
			r.Atomic = true // the services' own executions are covered by C01; here only the gateway's steps interleave
		}
		type answer struct {
			got  interface{}
			err  error
			done bool
		}
		request := func(text string, out *answer) {
			defer func() {
				if p := recover(); p != nil {
					out.err = fmt.Errorf("PANIC: %v", p)
				}
				out.done = true
			}()
			parsed, err := graphql.Parse(text, nil)
			if err != nil {
				out.err = err
				return
			}
			out.got, _, out.err = g.Exec.Execute(ctx, parsed, nil)
		}
		var a1, a2 answer
		rt.Go(func() { request(q, &a1) })
		if c.Twice {
			text := q
			if c.Introsp {
				text = introspectionProbe
			}
			rt.Go(func() { request(text, &a2) })
		}
		rt.Go(func() {
			for i := 0; i < c.N; i++ {
				if c.Change && i == 0 {
					// s2 is redeployed with more fields before the gateway looks again
					g.Schemas["s2"] = dep1.Schemas["s2"]
					g.Recorders["s2"].Inner = &federation.DirectExecutorClient{Client: dep1.Servers["s2"]}
					version = 1
				}
				// the two halves of the poll goroutine's ticker branch; the fetch (introspection of every service and the
				// schema merge) is taken as one step, installing the new planner interleaves with the requests
				var p *federation.Planner
				var schema *graphql.Schema
				var err error
				if c.Down && i == 0 {
					g.Recorders["s2"].Down = true
					version = 2
				}
				rt.NoBranch(func() { p, schema, err = g.Exec.VerifFetch(ctx) })
				if c.Down && i == 0 {
					g.Recorders["s2"].Down = false
					version = 0
					if err != nil || p == nil {
						continue // what poll does: keep the planner it has and try again at the next tick
					}
				}
				if err != nil || p == nil {
					x.Fail("refresh", "c06/refresh/refresh-failed", "schema refresh failed: %v", err)
					return
				}
				g.Exec.VerifInstall(p, schema)
			}
		})
		rt.QuiesceWithin(1e9)
		judge := func(which string, ans *answer, w interface{}) {
			if !ans.done {
				x.Fail("request-returns", "c06/refresh/request-blocked", "%s request did not return", which)
				return
			}
			if ans.err != nil || (w != nil && !reflect.DeepEqual(normNumbers(ans.got), w)) {
				x.Fail("gateway==monolith", "c06/refresh/gateway!=monolith", "%s request concurrent with a schema refresh: gateway gives %s (err=%v), the combined server gives %s", which, gqlfix.JS(ans.got), ans.err, gqlfix.JS(w))
			}
		}
		judge("first", &a1, want)
		if c.Twice {
			if c.Introsp {
				judge("introspection", &a2, nil)
			} else {
				judge("second", &a2, want)
			}
		}
		if c.Down { // the fault is over: the gateway must still answer like the combined server
			var a3 answer
			request(q, &a3)
			judge("after the fault", &a3, want)
		}
		if !c.Change { // with a redeployed s2 a request recorded before the swap is judged against the new schema: skip
			checkSubQueries(g, func(clause, sig, msg string) { x.Fail(clause, sig, "%s", msg) }, "refresh")
		}
		x.Outcome("served-by=%v", servedBy(g))
		x.Nontrivial()
	}}
}

func servedBy(g *fedfix.Gateway) string {
	var parts []string
	for svc, r := range g.Recorders {
		parts = append(parts, fmt.Sprintf("%s:%d", svc, len(r.Requests)))
	}
	sort.Strings(parts)
	return strings.Join(parts, ",")
}

func refreshConfigs(tier string) []rcfg {
	var out []rcfg
	out = append(out, rcfg{Asg: 2, Query: 5, N: 1}, rcfg{Asg: 2, Query: 0, N: 1})
	for asg := range refreshAssignments[:2] {
		for q := range refreshQueries[:5] {
			if tier != "thorough" && (q+asg)%2 == 1 {
				continue
			}
			out = append(out, rcfg{Asg: asg, Query: q, N: 1}, rcfg{Asg: asg, Query: q, N: 1, Change: true})
			if tier == "thorough" {
				out = append(out, rcfg{Asg: asg, Query: q, N: 2, Change: true}, rcfg{Asg: asg, Query: q, N: 1, Twice: true})
			}
		}
		out = append(out, rcfg{Asg: asg, Query: 0, N: 1, Twice: true, Introsp: true})
		out = append(out, rcfg{Asg: asg, Query: 4, N: 1})
		out = append(out, rcfg{Asg: asg, Query: asg, N: 1, Down: true}, rcfg{Asg: asg, Query: 2 + asg, N: 2, Down: true})
	}
	return out
}

func runRefresh(rp *explore.Report, tier string) {
	for _, c := range refreshConfigs(tier) {
		it := refreshItem(c)
		it.Split = true
		rp.Explore(it)
	}
}

func init() {
	reg.Register(&reg.Harness{Property: "C06", Name: "c06/selector", Level: "model_checking", Run: runSelector,
		Rule: "fields served by several services: every set of three of the 10 extra fields (and, separately, all root fields) served by both s1 and s2, over 2 (thorough 4) base partitions, x every ServiceSelector choice of the resolving service for those fields (the planner's own choice ranges over a Go map) x the query list; oracle as for c06/partitions"})
	reg.Register(&reg.Harness{Property: "C06", Name: "c06/refresh", Level: "model_checking", Bounds: [2]int{2, 3}, Run: runRefresh,
		Item: func(n string) *explore.Item { return refreshItem(parseRcfg(n)) },
		Rule: "one or two gateway requests (multi-hop plans; optionally an introspection query) concurrent with 1-2 schema refreshes (the body of the poll goroutine's ticker branch, through the VerifRefresh hook), optionally finding service s2 redeployed with additional fields, or unreachable during the fetch (a transient fault, with a further request once it is back); all interleavings within the deviation bound on the real federation.Executor, with the happens-before race monitor on every map access of the instrumented packages; oracle: each request returns the combined server's answer, no request blocks, refresh succeeds, no unordered conflicting map accesses"})
}
