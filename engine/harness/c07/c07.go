// Package c07: live SQL — every committed write reaches every live query it affects.
package c07

import (
	"context"
	"database/sql/driver"
	"fmt"
	"reflect"
	"sort"
	"strings"
	"time"

	"github.com/samsarahq/thunder/livesql"
	"github.com/samsarahq/thunder/reactive"
	"github.com/samsarahq/thunder/sqlgen"
	"github.com/siddontang/go-mysql/replication"
	"verif/explore"
	"verif/fix/fakesql"
	"verif/harness/reg"
	"vrt/rt"
)

type Item struct {
	Id    int64  `sql:",primary"`
	Draft string `sql:"-"` // not a column: column order and struct field index differ from here on
	Grp   int32
	Name  string
	cache []int // unexported: not a column either
	Opt   *int64
}

func p64(v int64) *int64 { return &v }

type filt struct {
	name string
	f    sqlgen.Filter
	pred func(it *Item) bool
}

func filters() []filt {
	var nilp *int64
	return []filt{
		{"grp=1", sqlgen.Filter{"grp": int32(1)}, func(i *Item) bool { return i.Grp == 1 }},
		{"id=1", sqlgen.Filter{"id": int64(1)}, func(i *Item) bool { return i.Id == 1 }},
		{"grp=1,name=a", sqlgen.Filter{"grp": int32(1), "name": "a"}, func(i *Item) bool { return i.Grp == 1 && i.Name == "a" }},
		{"opt=nil", sqlgen.Filter{"opt": nilp}, func(i *Item) bool { return i.Opt == nil }},
		{"opt=5", sqlgen.Filter{"opt": p64(5)}, func(i *Item) bool { return i.Opt != nil && *i.Opt == 5 }},
		{"all", sqlgen.Filter{}, func(i *Item) bool { return true }},
		{"grp=int64(1)", sqlgen.Filter{"grp": int64(1)}, func(i *Item) bool { return i.Grp == 1 }},
	}
}

// write operations (applied through the plain sqlgen.DB, i.e. "another client")
type write struct {
	name string
	do   func(ctx context.Context, db *sqlgen.DB) error
}

func writes() []write {
	return []write{
		{"insert(3,g1,a)", func(ctx context.Context, db *sqlgen.DB) error {
			_, err := db.InsertRow(ctx, &Item{Id: 3, Draft: "d", Grp: 1, Name: "a", Opt: nil})
			return err
		}},
		{"insert(4,g2,b,5)", func(ctx context.Context, db *sqlgen.DB) error {
			_, err := db.InsertRow(ctx, &Item{Id: 4, Draft: "d", Grp: 2, Name: "b", Opt: p64(5)})
			return err
		}},
		{"update(1:g1->g2)", func(ctx context.Context, db *sqlgen.DB) error {
			return db.UpdateRow(ctx, &Item{Id: 1, Draft: "d", Grp: 2, Name: "a", Opt: nil})
		}},
		{"update(2:g2->g1)", func(ctx context.Context, db *sqlgen.DB) error {
			return db.UpdateRow(ctx, &Item{Id: 2, Draft: "d", Grp: 1, Name: "b", Opt: p64(5)})
		}},
		{"update(1:name)", func(ctx context.Context, db *sqlgen.DB) error {
			return db.UpdateRow(ctx, &Item{Id: 1, Draft: "d", Grp: 1, Name: "z", Opt: nil})
		}},
		{"update(2:opt->nil)", func(ctx context.Context, db *sqlgen.DB) error {
			return db.UpdateRow(ctx, &Item{Id: 2, Draft: "d", Grp: 2, Name: "b", Opt: nil})
		}},
		{"update(1:opt->5)", func(ctx context.Context, db *sqlgen.DB) error {
			return db.UpdateRow(ctx, &Item{Id: 1, Draft: "d", Grp: 1, Name: "a", Opt: p64(5)})
		}},
		{"delete(1)", func(ctx context.Context, db *sqlgen.DB) error { return db.DeleteRow(ctx, &Item{Id: 1}) }},
		{"upsert(2,g1,c)", func(ctx context.Context, db *sqlgen.DB) error {
			_, err := db.UpsertRow(ctx, &Item{Id: 2, Draft: "d", Grp: 1, Name: "c", Opt: nil})
			return err
		}},
		{"tx-update(1:name,2:g2->g1,2:opt)", func(ctx context.Context, db *sqlgen.DB) error {
			// several rows changed by one commit: delivered as ONE update event with several (before, after) pairs
			tctx, tx, err := db.WithTx(ctx)
			if err != nil {
				return err
			}
			db.UpdateRow(tctx, &Item{Id: 1, Draft: "d", Grp: 1, Name: "y", Opt: nil})
			db.UpdateRow(tctx, &Item{Id: 2, Draft: "d", Grp: 1, Name: "b", Opt: p64(5)})
			db.UpdateRow(tctx, &Item{Id: 2, Draft: "d", Grp: 1, Name: "b", Opt: nil})
			return tx.Commit()
		}},
		{"upsert(9,g1,a)", func(ctx context.Context, db *sqlgen.DB) error {
			_, err := db.UpsertRow(ctx, &Item{Id: 9, Draft: "d", Grp: 1, Name: "a", Opt: p64(5)})
			return err
		}},
	}
}

type cfg struct {
	Queries []int // filter indices
	Writers [][]int
	Fault   bool // the environment may garble a change event (schema change)
	Delay   int  // binlog update delay in ms
	WTR     int  // reactive.WriteThenReadDelay in ms
	Reorder int  // 1, 2: the database table declares its columns in another order than the struct (rows in change events follow the database)
	Switch  int  // 1+alt: the first live computation selects between Queries[0] and filter alt by other reactive state; the history is selection away, the writes, selection back (each step settled)
	Burst   int  // a writer inserts this many rows one statement at a time while the update applier is delayed (more change events than the loop's buffer holds); default schedule only
	MetaBad bool // the column list cannot be fetched (driver.ErrBadConn) while change events arrive: they are undecodable
}

func (c cfg) name() string {
	s := fmt.Sprintf("queries=%v writers=%v fault=%t delay=%d wtr=%d", c.Queries, c.Writers, c.Fault, c.Delay, c.WTR)
	if c.MetaBad {
		s += " metabad=true"
	}
	if c.Switch != 0 {
		s += fmt.Sprintf(" switch=%d", c.Switch)
	}
	if c.Burst != 0 {
		s += fmt.Sprintf(" burst=%d", c.Burst)
	}
	if c.Reorder != 0 {
		s += fmt.Sprintf(" reorder=%d", c.Reorder)
	}
	return s
}

func parse(s string) cfg {
	var c cfg
	get := func(key string) string {
		i := strings.Index(s, key+"=")
		rest := s[i+len(key)+1:]
		depth := 0
		for j, ch := range rest {
			switch ch {
			case '[':
				depth++
			case ']':
				depth--
			case ' ':
				if depth == 0 {
					return rest[:j]
				}
			}
		}
		return rest
	}
	ints := func(t string) []int {
		var out []int
		for _, f := range strings.Fields(strings.Trim(t, "[]")) {
			var v int
			fmt.Sscan(f, &v)
			out = append(out, v)
		}
		return out
	}
	c.Queries = ints(get("queries"))
	ws := strings.TrimSuffix(strings.TrimPrefix(get("writers"), "["), "]")
	for _, part := range strings.Split(ws, "] [") {
		if strings.Trim(part, "[] ") != "" {
			c.Writers = append(c.Writers, ints(part))
		}
	}
	fmt.Sscan(get("fault"), &c.Fault)
	fmt.Sscan(get("delay"), &c.Delay)
	fmt.Sscan(get("wtr"), &c.WTR)
	if strings.Contains(s, "metabad=true") {
		c.MetaBad = true
	}
	if i := strings.Index(s, "burst="); i >= 0 {
		fmt.Sscan(s[i+6:], &c.Burst)
	}
	if i := strings.Index(s, "switch="); i >= 0 {
		fmt.Sscan(s[i+7:], &c.Switch)
	}
	if i := strings.Index(s, "reorder="); i >= 0 {
		fmt.Sscan(s[i+8:], &c.Reorder)
	}
	return c
}

// binlogRow converts a row of driver values to the forms the replication decoder yields.
func binlogRow(r []driver.Value) []interface{} {
	if r == nil {
		return nil
	}
	out := make([]interface{}, len(r))
	for i, v := range r {
		switch x := v.(type) {
		case int64:
			if i == 1 {
				out[i] = int32(x) // INT column
			} else {
				out[i] = x
			}
		default:
			out[i] = v
		}
	}
	return out
}

func item(c cfg) *explore.Item {
	fs, ws := filters(), writes()
	bound, maxSteps := -1, 12000
	if c.Burst > 0 {
		bound, maxSteps = 0, 4000000
	}
	return &explore.Item{Name: c.name(), Bound: bound, MaxSteps: maxSteps, MaxClock: 100000, Body: func(x *explore.Exec) {
		reactive.WriteThenReadDelay = time.Duration(c.WTR) * time.Millisecond
		schema := sqlgen.NewSchema()
		schema.MustRegisterType("items", sqlgen.UniqueId, Item{})
		fdb := fakesql.New()
		tbl := fdb.AddTable(schema.ByName["items"])
		tbl.Rows = [][]driver.Value{{int64(1), int64(1), "a", nil}, {int64(2), int64(2), "b", int64(5)}}
		db := sqlgen.NewDB(fdb.Open(), schema)
		x.Cleanup(fdb.Close)
		ldb := livesql.NewLiveDB(db)
		streamer := replication.NewTestStreamer()
		bl := livesql.VerifNewBinlog(ldb, "testdb", streamer)
		bl.SetUpdateDelay(time.Duration(c.Delay) * time.Millisecond)
		if c.MetaBad {
			fdb.FailMeta = driver.ErrBadConn
		}
		// database column order: struct order is id, grp, name, opt
		dbOrder := []int{0, 1, 2, 3}
		if c.Reorder != 0 {
			// columns of scan-compatible types change places (a mis-mapped value still decodes)
			dbOrder = [][]int{nil, {1, 0, 2, 3}, {0, 3, 2, 1}}[c.Reorder] // grp,id,name,opt | id,opt,name,grp
			var names []string
			for _, j := range dbOrder {
				names = append(names, tbl.Cols[j])
			}
			fdb.MetaCols = map[string][]string{"items": names}
		}
		reorder := func(r []interface{}) []interface{} {
			if r == nil || c.Reorder == 0 {
				return r
			}
			out := make([]interface{}, len(r))
			for k, j := range dbOrder {
				out[k] = r[j]
			}
			return out
		}
		garbled := 0
		fdb.OnCommit = func(changes []fakesql.Change) {
			kindOf := func(ch fakesql.Change) replication.EventType {
				switch {
				case ch.Before == nil:
					return replication.WRITE_ROWS_EVENTv2
				case ch.After == nil:
					return replication.DELETE_ROWS_EVENTv2
				}
				return replication.UPDATE_ROWS_EVENTv2
			}
			for ci := 0; ci < len(changes); ci++ {
				ch := changes[ci]
				ev := &replication.BinlogEvent{Header: &replication.EventHeader{}}
				re := &replication.RowsEvent{Table: &replication.TableMapEvent{Schema: []byte("testdb"), Table: []byte(ch.Table)}}
				ev.Header.EventType = kindOf(ch)
				// consecutive changes of one kind on one table in one commit travel in one rows event (as a multi-row
				// statement does): n rows for inserts / deletes, n (before, after) pairs for updates
				for {
					switch ev.Header.EventType {
					case replication.WRITE_ROWS_EVENTv2:
						re.Rows = append(re.Rows, binlogRow(ch.After))
					case replication.DELETE_ROWS_EVENTv2:
						re.Rows = append(re.Rows, binlogRow(ch.Before))
					default:
						re.Rows = append(re.Rows, binlogRow(ch.Before), binlogRow(ch.After))
					}
					if ci+1 < len(changes) && changes[ci+1].Table == ch.Table && kindOf(changes[ci+1]) == ev.Header.EventType {
						ci++
						ch = changes[ci]
						continue
					}
					break
				}
				if c.Fault {
					kind := rt.Choose(6, true, "event-fault")
					switch kind {
					case 1: // a column was added to the table: the row no longer has the expected width
						for i := range re.Rows {
							re.Rows[i] = append(re.Rows[i], int64(0))
						}
						garbled++
					case 2: // a column changed type: a value that cannot be scanned into the struct field
						for i := range re.Rows {
							re.Rows[i][1] = "not-a-number"
						}
						garbled++
					case 3, 4: // the row was written while the table still had one more column in the middle
						// (dropped since): wider than expected, later values shifted, every value still scans
						at := 3 // before opt
						if kind == 4 {
							at = 1 // before grp
						}
						for i := range re.Rows {
							r := append([]interface{}{}, re.Rows[i][:at]...)
							r = append(r, int64(99))
							re.Rows[i] = append(r, re.Rows[i][at:]...)
						}
						garbled++
					case 5: // written before a column was added: narrower than expected
						for i := range re.Rows {
							re.Rows[i] = re.Rows[i][:len(re.Rows[i])-1]
						}
						garbled++
					}
				}
				for i := range re.Rows {
					if len(re.Rows[i]) == 4 {
						re.Rows[i] = reorder(re.Rows[i])
					}
				}
				ev.Event = re
				streamer.Push(ev)
			}
		}
		pollDone := rt.NewVar(false)
		rt.Go(func() {
			if err := bl.RunPollLoop(); err != nil {
				x.Fail("poll-loop", "", "RunPollLoop returned %v", err)
			}
			pollDone.Store(true)
		})

		type live struct {
			rr   *reactive.Rerunner
			held []int64
			runs int
			err  error
		}
		lives := make([]*live, len(c.Queries))
		selected := rt.NewVar(0)
		selection := reactive.NewResource()
		for n, qi := range c.Queries {
			n, qi := n, qi
			l := &live{}
			lives[n] = l
			l.rr = reactive.NewRerunner(context.Background(), func(ctx context.Context) (interface{}, error) {
				var rows []*Item
				qi := qi
				if c.Switch != 0 && n == 0 {
					reactive.AddDependency(ctx, selection, nil)
					if selected.Load() == 1 {
						qi = c.Switch - 1
					}
				}
				if err := ldb.Query(ctx, &rows, fs[qi].f, nil); err != nil {
					l.err = err
					return nil, err
				}
				var keys []int64
				for _, r := range rows {
					keys = append(keys, r.Id)
				}
				sort.Slice(keys, func(i, j int) bool { return keys[i] < keys[j] })
				l.held = keys
				l.runs++
				rt.Note("live query %s now holds %v", fs[qi].name, keys)
				return keys, nil
			}, 0, false)
		}
		if c.Switch != 0 {
			// a query the computation stops using and uses again: away, the writes, back - each step settled
			rt.Quiesce()
			selected.Store(1)
			selection.Strobe()
			rt.Quiesce()
		}
		for _, seq := range c.Writers {
			seq := seq
			rt.Go(func() {
				for _, wi := range seq {
					rt.Note("write %s", ws[wi].name)
					ws[wi].do(context.Background(), db)
				}
			})
		}
		if c.Burst > 0 {
			rt.Quiesce() // the live queries have run and are tracked
			rt.Go(func() {
				// rows no live query here selects first, the rows they do select last: only the last change events
				// of the burst invalidate them
				for i := 0; i < c.Burst; i++ {
					grp := int32(7)
					if i >= c.Burst-8 {
						grp = 1
					}
					db.InsertRow(context.Background(), &Item{Id: int64(100 + i), Draft: "d", Grp: grp, Name: "a"})
				}
			})
		}
		rt.Quiesce()
		if c.Switch != 0 {
			selected.Store(0)
			selection.Strobe()
			rt.Quiesce()
		}

		// ---- oracle at quiescence ----
		var final []*Item
		for _, r := range tbl.Rows {
			it := &Item{Id: r[0].(int64), Grp: int32(r[1].(int64)), Name: r[2].(string)}
			if r[3] != nil {
				it.Opt = p64(r[3].(int64))
			}
			final = append(final, it)
		}
		for n, qi := range c.Queries {
			l := lives[n]
			if l.err != nil {
				x.Fail("query-error", "", "live query %s failed: %v", fs[qi].name, l.err)
				continue
			}
			var want []int64
			for _, it := range final {
				if fs[qi].pred(it) {
					want = append(want, it.Id)
				}
			}
			sort.Slice(want, func(i, j int) bool { return want[i] < want[j] })
			if !reflect.DeepEqual(append([]int64{}, l.held...), append([]int64{}, want...)) && !(len(l.held) == 0 && len(want) == 0) {
				cl := "fresh-rows"
				sig := "c07/fresh-rows/" + fs[qi].name
				if garbled > 0 || c.MetaBad {
					cl, sig = "undecodable-invalidates", "c07/undecodable-invalidates"
				}
				x.Fail(cl, sig, "live query %s holds rows %v after %d runs, the table now gives %v (garbled events: %d)", fs[qi].name, l.held, l.runs, want, garbled)
			}
		}
		if c.Burst > 0 {
			x.Outcome("burst: runs=%d held=%d table=%d", lives[0].runs, len(lives[0].held), len(tbl.Rows))
		}
		x.Outcome("garbled=%d", garbled)
		x.Nontrivial()
		// shut down: every goroutine must end
		for _, l := range lives {
			l.rr.Stop()
		}
		bl.VerifMarkClosed()
		streamer.PushError(fmt.Errorf("closed"))
		rt.Quiesce()
		if !pollDone.Peek() {
			x.Fail("poll-loop", "", "RunPollLoop did not return after close")
		}
		if n := ldb.VerifTracked(); n != 0 {
			x.Fail("tracker-released", "", "%d dependencies still tracked after all live queries stopped", n)
		}
	}}
}

func configs(tier string) []cfg {
	var out []cfg
	nw := len(writes())
	// one live query, one writer doing one or two writes
	for q := range filters() {
		for a := 0; a < nw; a++ {
			out = append(out, cfg{Queries: []int{q}, Writers: [][]int{{a}}})
			if tier == "thorough" || (a+q)%3 == 0 {
				out = append(out, cfg{Queries: []int{q}, Writers: [][]int{{a}}, Fault: true})
			}
		}
	}
	pairs := [][]int{{0, 2}, {2, 3}, {7, 0}, {1, 6}, {3, 8}, {9, 7}, {4, 0}, {5, 1}}
	for _, pr := range pairs {
		for _, q := range []int{0, 2, 3, 5} {
			out = append(out, cfg{Queries: []int{q}, Writers: [][]int{pr}})
		}
		out = append(out, cfg{Queries: []int{0, 3}, Writers: [][]int{{pr[0]}, {pr[1]}}})
	}
	for _, q := range []int{0, 3, 5} {
		out = append(out, cfg{Queries: []int{q}, Writers: [][]int{{q % 3, 3}}, MetaBad: true})
	}
	for q := range filters() {
		out = append(out, cfg{Queries: []int{q}, Writers: [][]int{{q % 4, 3 + q%5}}, Reorder: 1 + q%2})
	}
	// a live query dropped by its computation in one run and used again later
	for q := range filters() {
		for a := 0; a < nw; a++ {
			if tier == "thorough" || (a+q)%2 == 0 {
				out = append(out, cfg{Queries: []int{q}, Writers: [][]int{{a}}, Switch: 1 + (q+1)%len(filters())})
			}
		}
	}
	// more change events than the poll loop buffers, delivered while the applier is delayed
	out = append(out, cfg{Queries: []int{0, 2}, Burst: 1040, Delay: 5})
	out = append(out, cfg{Queries: []int{0}, Writers: [][]int{{2}}, Delay: 5}, cfg{Queries: []int{0}, Writers: [][]int{{3}}, WTR: 3},
		cfg{Queries: []int{2}, Writers: [][]int{{4}}, Delay: 5, WTR: 3, Fault: true})
	if tier == "thorough" {
		for _, pr := range pairs {
			out = append(out, cfg{Queries: []int{0, 4}, Writers: [][]int{{pr[0]}, {pr[1]}}, Fault: true})
			out = append(out, cfg{Queries: []int{5}, Writers: [][]int{{pr[0], pr[1], 9}}})
		}
	}
	return out
}

func run(rp *explore.Report, tier string) {
	for _, c := range configs(tier) {
		it := item(c)
		it.Split = true
		rp.Explore(it)
	}
}

func init() {
	reg.Register(&reg.Harness{Property: "C07", Name: "c07/livesql", Level: "model_checking", Bounds: [2]int{2, 3}, Run: run,
		Item: func(name string) *explore.Item { return item(parse(name)) },
		Rule: "items = 1-2 live queries (rerunner around LiveDB.Query; filters on key, int32 column, two columns, NULL / pointer column, empty filter, other Go type) x 1-2 writers issuing inserts, updates moving rows into and out of the filter, deletes, upserts through sqlgen over an in-memory driver whose commits emit replication-shaped row events (typed ints, NULLs) into the real RunPollLoop through an in-process streamer, optional update delay / WriteThenReadDelay on the virtual clock, a burst of 1040 single-row inserts while the applier is delayed (default schedule only), a database column order that differs from the struct's, a column-list fetch that fails with driver.ErrBadConn, a computation that selects between two live queries by other reactive state (selection away, the writes, selection back: a query dropped in one run and used again later), and explorer-chosen garbled events (extra column, unscannable value = schema change); all schedules within the deviation bound. Oracle at quiescence: rows held by each live query == filter evaluated on the final table; after Stop/close every goroutine ends and no dependency stays tracked"})
}
