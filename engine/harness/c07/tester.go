package c07

import (
	"database/sql/driver"
	"fmt"
	"time"

	"github.com/samsarahq/thunder/sqlgen"
	"verif/explore"
	"verif/fix/fakesql"
	"verif/harness/reg"
)

type NStr string

// Wide covers the column kinds a live filter can name.
type Wide struct {
	Id   int64  `sql:",primary"`
	Skip string `sql:"-"`
	I32  int32
	U8   uint8
	S    string
	NS   NStr `sql:"ns"`
	B    bool
	F    float64
	P    *int64
	PS   *string `sql:"ps"`
	By   []byte
	IN   int64 `sql:"in,implicitnull"`
	At   time.Time
	PAt  *time.Time `sql:"pat"`
	Bin  WPair      `sql:",binary"`
	U64  uint64
}

// WPair is stored through its binary marshalling.
type WPair struct{ A, B byte }

func (p WPair) MarshalBinary() ([]byte, error) { return []byte{p.A, p.B}, nil }
func (p *WPair) UnmarshalBinary(b []byte) error {
	if len(b) != 2 {
		return fmt.Errorf("WPair: %d bytes", len(b))
	}
	p.A, p.B = b[0], b[1]
	return nil
}

var (
	wt0    = time.Date(2020, 1, 2, 3, 4, 5, 0, time.UTC)
	wt1    = time.Date(2021, 1, 1, 0, 0, 0, 0, time.UTC)
	wplus2 = time.FixedZone("plus2", 2*3600)
	wbig   = uint64(1)<<63 + 5
)

func ps(s string) *string { return &s }

// The binlog-side matcher (sqlgen.Tester) must agree with what the database
// itself answers for the SELECT's WHERE clause, for every row and filter.
func runTester(rp *explore.Report, tier string) {
	schema := sqlgen.NewSchema()
	schema.MustRegisterType("wide", sqlgen.UniqueId, Wide{})
	table := schema.ByName["wide"]
	fdb := fakesql.New()
	ft := fdb.AddTable(table)
	rows := []*Wide{
		{Id: 1, At: wt1},
		{Id: 2, I32: 5, U8: 200, S: "a", NS: "n", B: true, F: 1.5, P: p64(5), PS: ps("a"), By: []byte("a"), IN: 7, At: wt0, PAt: &wt0, Bin: WPair{1, 2}, U64: wbig},
		{Id: 3, I32: -1, U8: 0, S: "A", NS: "", B: false, F: 0, P: p64(0), PS: ps(""), By: []byte{}, IN: 0, At: wt0.In(wplus2), PAt: &wt1, Bin: WPair{3, 4}, U64: 7},
		{Id: 4, I32: 5, U8: 5, S: "5", NS: "5", B: true, F: 5, P: nil, PS: nil, By: nil, IN: 5, At: wt1, PAt: nil, Bin: WPair{1, 2}, U64: 0},
	}
	var nilI *int64
	var nilS *string
	vals := map[string][]interface{}{
		"id":  {int64(1), int(2), int32(3), p64(4), int64(9)},
		"i32": {int32(5), int64(5), 5, int32(0), int32(-1)},
		"u8":  {uint8(200), uint8(0), int64(5), 5},
		"s":   {"a", "A", "", "5", NStr("a")},
		"ns":  {NStr("n"), "n", NStr(""), "5"},
		"b":   {true, false},
		"f":   {1.5, 0.0, 5.0, float32(1.5)},
		"p":   {p64(5), int64(5), p64(0), nilI, nil, 0},
		"ps":  {ps("a"), "a", ps(""), nilS, nil},
		"by":  {[]byte("a"), []byte{}, []byte(nil)},
		"in":  {int64(7), int64(0), int64(5), p64(0)},
		"at":  {wt0, wt0.In(wplus2), &wt0, wt1, wt1.Local()},
		"pat": {&wt0, wt0.In(wplus2), wt1, (*time.Time)(nil)},
		"bin": {WPair{1, 2}, &WPair{3, 4}, WPair{9, 9}},
		"u64": {wbig, uint64(7), 7, uint64(0)},
	}
	var filters []sqlgen.Filter
	filters = append(filters, sqlgen.Filter{}, nil)
	cols := []string{"id", "i32", "u8", "s", "ns", "b", "f", "p", "ps", "by", "in", "at", "pat", "bin", "u64"}
	for _, c := range cols {
		for _, v := range vals[c] {
			filters = append(filters, sqlgen.Filter{c: v})
		}
	}
	for i, c1 := range cols {
		for _, c2 := range cols[i+1:] {
			filters = append(filters, sqlgen.Filter{c1: vals[c1][0], c2: vals[c2][0]}, sqlgen.Filter{c1: vals[c1][1], c2: vals[c2][len(vals[c2])-1]})
		}
	}
	var k int64
	for _, f := range filters {
		for _, row := range rows {
			k++
			if !rp.Mine(k) {
				continue
			}
			rp.Cases++
			item := fmt.Sprintf("filter %v row %+v", f, *row)
			tester, err := schema.MakeTester("wide", f)
			if err != nil {
				rp.AddViolation(&explore.Violation{Item: item, Signature: "c07/tester/make", Stable: true, Failures: []explore.Failure{{Clause: "tester", Msg: err.Error()}}})
				continue
			}
			var out []*Wide
			q, err := schema.MakeSelect(&out, f, nil)
			if err != nil {
				continue
			}
			sq, err := q.MakeSelectQuery()
			if err != nil {
				continue // the database rejects the filter as well
			}
			sqlText, args := sq.ToSQL()
			dargs := make([]driver.Value, len(args))
			for i, a := range args {
				dargs[i] = a
			}
			parsed, err := fakesql.Parse(sqlText, dargs)
			if err != nil {
				rp.AddViolation(&explore.Violation{Item: item, Signature: "c07/tester/harness-parse", Stable: true, Failures: []explore.Failure{{Clause: "harness", Msg: err.Error()}}})
				continue
			}
			dv, err := schema.UnbuildStruct("wide", row)
			if err != nil {
				continue
			}
			drow := make([]driver.Value, len(dv))
			for i := range dv {
				drow[i] = dv[i]
			}
			ft.Rows = [][]driver.Value{drow}
			dbSays := len(fdb.Select(parsed)) == 1
			testerSays := tester.Test(row)
			rp.Nontrivial++
			if rp.Cases%97 == 1 {
				rp.AddSample(map[string]interface{}{"sql": sqlText, "args": fmt.Sprint(args), "row": fmt.Sprintf("%+v", *row), "matches": dbSays})
			}
			if dbSays != testerSays {
				col := "multi"
				if len(f) == 1 {
					for c := range f {
						col = c
					}
				}
				rp.AddViolation(&explore.Violation{Item: item, Signature: "c07/tester-vs-where/" + col, Stable: true,
					Failures: []explore.Failure{{Clause: "tester-vs-where", Msg: fmt.Sprintf("%s %v selects the row: %v, but the change-log tester says %v", sqlText, args, dbSays, testerSays)}}})
			}
		}
	}
}

func init() {
	reg.Register(&reg.Harness{Property: "C07", Name: "c07/tester-vs-where", Level: "model_checking", Run: runTester,
		Rule: "sequential part: every filter (each column kind x values in several Go representations incl. pointers, typed and untyped nil, named types, implicitnull, []byte, instants in several time zones, a binary-marshalled type, unsigned 64-bit beyond the int64 range; all two-column combinations) x every row: sqlgen.Tester.Test(row) == verdict of the WHERE clause sqlgen generates for the same filter, evaluated with SQL NULL semantics"})
}
