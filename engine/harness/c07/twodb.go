package c07

import (
	"context"
	"database/sql/driver"
	"fmt"
	"reflect"
	"sort"
	"time"

	"github.com/samsarahq/thunder/livesql"
	"github.com/samsarahq/thunder/reactive"
	"github.com/samsarahq/thunder/sqlgen"
	"verif/explore"
	"verif/fix/fakesql"
	"verif/harness/reg"
	"vrt/rt"
)

// One live computation that asks two databases with the same schema (two shards) the same question: each live
// query holds the rows of its own database.
func runTwoDB(rp *explore.Report, tier string) {
	fs := filters()
	for fi, f := range fs {
		for _, order := range []string{"a-then-b", "b-then-a"} {
			if !rp.Mine(int64(fi*2 + len(order)%2)) {
				continue
			}
			rp.Cases++
			rp.Nontrivial++
			var heldA, heldB []int64
			var errA, errB error
			var rowsA, rowsB [][]driver.Value
			rt.RunDefault(func() {
				mk := func(rows [][]driver.Value) (*livesql.LiveDB, *fakesql.DB) {
					schema := sqlgen.NewSchema()
					schema.MustRegisterType("items", sqlgen.UniqueId, Item{})
					fdb := fakesql.New()
					tbl := fdb.AddTable(schema.ByName["items"])
					tbl.Rows = rows
					return livesql.NewLiveDB(sqlgen.NewDB(fdb.Open(), schema)), fdb
				}
				rowsA = [][]driver.Value{{int64(1), int64(1), "a", nil}, {int64(2), int64(2), "b", int64(5)}}
				rowsB = [][]driver.Value{{int64(1), int64(2), "a", int64(5)}, {int64(7), int64(1), "a", nil}, {int64(8), int64(1), "z", nil}}
				ldbA, fa := mk(rowsA)
				ldbB, fb := mk(rowsB)
				defer fa.Close()
				defer fb.Close()
				ids := func(ldb *livesql.LiveDB, ctx context.Context) ([]int64, error) {
					var rows []*Item
					if err := ldb.Query(ctx, &rows, f.f, nil); err != nil {
						return nil, err
					}
					var out []int64
					for _, r := range rows {
						out = append(out, r.Id)
					}
					sort.Slice(out, func(i, j int) bool { return out[i] < out[j] })
					return out, nil
				}
				rr := reactive.NewRerunner(context.Background(), func(ctx context.Context) (interface{}, error) {
					if order == "a-then-b" {
						heldA, errA = ids(ldbA, ctx)
						heldB, errB = ids(ldbB, ctx)
					} else {
						heldB, errB = ids(ldbB, ctx)
						heldA, errA = ids(ldbA, ctx)
					}
					return nil, nil
				}, 0, false)
				rt.QuiesceWithin(time.Second)
				rr.Stop()
			})
			want := func(rows [][]driver.Value) []int64 {
				var out []int64
				for _, r := range rows {
					it := &Item{Id: r[0].(int64), Grp: int32(r[1].(int64)), Name: r[2].(string)}
					if r[3] != nil {
						it.Opt = p64(r[3].(int64))
					}
					if f.pred(it) {
						out = append(out, it.Id)
					}
				}
				return out
			}
			item := fmt.Sprintf("two databases, filter %s, %s", f.name, order)
			for _, side := range []struct {
				name string
				held []int64
				err  error
				want []int64
			}{{"A", heldA, errA, want(rowsA)}, {"B", heldB, errB, want(rowsB)}} {
				if side.err != nil {
					rp.AddViolation(&explore.Violation{Item: item, Stable: true, Signature: "c07/two-databases/query-error",
						Failures: []explore.Failure{{Clause: "query-error", Msg: fmt.Sprintf("the live query on database %s failed: %v", side.name, side.err)}}})
				} else if !reflect.DeepEqual(append([]int64{}, side.held...), append([]int64{}, side.want...)) && !(len(side.held) == 0 && len(side.want) == 0) {
					rp.AddViolation(&explore.Violation{Item: item, Stable: true, Signature: "c07/two-databases/own-rows",
						Failures: []explore.Failure{{Clause: "fresh-rows", Msg: fmt.Sprintf("the live query on database %s holds rows %v, that database gives %v", side.name, side.held, side.want)}}})
				}
			}
		}
	}
	rp.AddOutcome("two-databases")
}

func init() {
	reg.Register(&reg.Harness{Property: "C07", Name: "c07/two-databases", Level: "exploration", Run: runTwoDB,
		Rule: "one live computation asks two LiveDBs with the same schema (two shards with different contents) the same question, in both orders, for every filter; oracle: each live query holds the rows of its own database"})
}
