// Package c09: the merged gateway schema is executable by every live version of every service.
package c09

import (
	"encoding/json"
	"fmt"
	"reflect"
	"sort"
	"strings"

	"github.com/samsarahq/thunder/federation"
	"verif/explore"
	"verif/harness/reg"
)

// ---- a small model of introspection schemas ----

type tref struct {
	Kind   string `json:"kind"`
	Name   string `json:"name,omitempty"`
	OfType *tref  `json:"ofType,omitempty"`
}

type ival struct {
	Name string `json:"name"`
	Type *tref  `json:"type"`
}

type fld struct {
	Name string `json:"name"`
	Type *tref  `json:"type"`
	Args []ival `json:"args"`
}

type typ struct {
	Name          string  `json:"name"`
	Kind          string  `json:"kind"`
	Fields        []fld   `json:"fields"`
	InputFields   []ival  `json:"inputFields"`
	PossibleTypes []*tref `json:"possibleTypes"`
	EnumValues    []struct {
		Name string `json:"name"`
	} `json:"enumValues"`
}

type schema struct {
	Types []typ `json:"types"`
}

type doc struct {
	Schema schema `json:"__schema"`
}

func named(kind, name string) *tref { return &tref{Kind: kind, Name: name} }
func nn(t *tref) *tref              { return &tref{Kind: "NON_NULL", OfType: t} }
func list(t *tref) *tref            { return &tref{Kind: "LIST", OfType: t} }

func (t *tref) String() string {
	switch t.Kind {
	case "NON_NULL":
		return t.OfType.String() + "!"
	case "LIST":
		return "[" + t.OfType.String() + "]"
	}
	return t.Name
}

// shape is the type with all NON_NULL wrappers removed.
func (t *tref) shape() string {
	switch t.Kind {
	case "NON_NULL":
		return t.OfType.shape()
	case "LIST":
		return "[" + t.OfType.shape() + "]"
	}
	return t.Kind + ":" + t.Name
}

// nullability lists, outermost first, whether each nesting level is non-null.
func (t *tref) nullability() []bool {
	var out []bool
	for {
		non := false
		if t.Kind == "NON_NULL" {
			non = true
			t = t.OfType
		}
		out = append(out, non)
		if t.Kind != "LIST" {
			return out
		}
		t = t.OfType
	}
}

func enumVals(vs ...string) []struct {
	Name string `json:"name"`
} {
	out := make([]struct {
		Name string `json:"name"`
	}, len(vs))
	for i, v := range vs {
		out[i].Name = v
	}
	return out
}

func base() *schema {
	Int, Str, Flt, Bool := named("SCALAR", "Int"), named("SCALAR", "String"), named("SCALAR", "Float"), named("SCALAR", "Boolean")
	A, B, U, E, In := named("OBJECT", "A"), named("OBJECT", "B"), named("UNION", "U"), named("ENUM", "E"), named("INPUT_OBJECT", "In")
	return &schema{Types: []typ{
		{Name: "Query", Kind: "OBJECT", Fields: []fld{
			{Name: "a", Type: nn(A)}, {Name: "list", Type: nn(list(nn(A)))}, {Name: "u", Type: U},
			{Name: "f", Type: A, Args: []ival{{"x", nn(Int)}, {"y", In}, {"z", list(nn(Str))}}}, {Name: "e", Type: nn(E)}}},
		{Name: "Mutation", Kind: "OBJECT", Fields: []fld{{Name: "m", Type: Bool}}},
		{Name: "A", Kind: "OBJECT", Fields: []fld{{Name: "id", Type: nn(Int)}, {Name: "name", Type: Str}, {Name: "b", Type: B}}},
		{Name: "B", Kind: "OBJECT", Fields: []fld{{Name: "v", Type: nn(Flt)}}},
		{Name: "U", Kind: "UNION", PossibleTypes: []*tref{A, B}},
		{Name: "E", Kind: "ENUM", EnumValues: enumVals("X", "Y")},
		{Name: "In", Kind: "INPUT_OBJECT", InputFields: []ival{{"p", nn(Int)}, {"q", Str}}},
		{Name: "Int", Kind: "SCALAR"}, {Name: "String", Kind: "SCALAR"}, {Name: "Float", Kind: "SCALAR"}, {Name: "Boolean", Kind: "SCALAR"},
	}}
}

func clone(s *schema) *schema {
	b, _ := json.Marshal(s)
	var c schema
	json.Unmarshal(b, &c)
	return &c
}

func (s *schema) typ(name string) *typ {
	for i := range s.Types {
		if s.Types[i].Name == name {
			return &s.Types[i]
		}
	}
	return nil
}

type edit struct {
	name string
	f    func(s *schema)
}

// toggles flips NON_NULL at nesting level lvl of t.
func toggle(t *tref, lvl int) *tref {
	non := t.Kind == "NON_NULL"
	inner := t
	if non {
		inner = t.OfType
	}
	if lvl == 0 {
		if non {
			return inner
		}
		return nn(inner)
	}
	if inner.Kind != "LIST" {
		return t
	}
	r := list(toggle(inner.OfType, lvl-1))
	if non {
		return nn(r)
	}
	return r
}

func edits() []edit {
	var es []edit
	add := func(name string, f func(s *schema)) { es = append(es, edit{name, f}) }
	add("add-field", func(s *schema) {
		t := s.typ("A")
		t.Fields = append(t.Fields, fld{Name: "extra", Type: named("SCALAR", "Int")})
	})
	add("add-field-with-arg", func(s *schema) {
		t := s.typ("Query")
		t.Fields = append(t.Fields, fld{Name: "g", Type: nn(named("OBJECT", "B")), Args: []ival{{"k", nn(named("SCALAR", "Int"))}}})
	})
	add("remove-field", func(s *schema) { t := s.typ("A"); t.Fields = t.Fields[:2] })
	add("remove-root-field", func(s *schema) { t := s.typ("Query"); t.Fields = append(t.Fields[:2:2], t.Fields[3:]...) })
	add("add-nullable-arg", func(s *schema) {
		f := &s.typ("Query").Fields[3]
		f.Args = append(f.Args, ival{"w", named("SCALAR", "Int")})
	})
	add("add-required-arg", func(s *schema) {
		f := &s.typ("Query").Fields[3]
		f.Args = append(f.Args, ival{"r", nn(named("SCALAR", "Int"))})
	})
	add("remove-nullable-arg", func(s *schema) { f := &s.typ("Query").Fields[3]; f.Args = f.Args[:2] })
	add("remove-required-arg", func(s *schema) { f := &s.typ("Query").Fields[3]; f.Args = f.Args[1:] })
	add("add-nullable-input-field", func(s *schema) {
		t := s.typ("In")
		t.InputFields = append(t.InputFields, ival{"n", named("SCALAR", "Int")})
	})
	add("add-required-input-field", func(s *schema) {
		t := s.typ("In")
		t.InputFields = append(t.InputFields, ival{"rq", nn(named("SCALAR", "Int"))})
	})
	add("remove-input-field", func(s *schema) { t := s.typ("In"); t.InputFields = t.InputFields[:1] })
	add("add-enum-value", func(s *schema) { t := s.typ("E"); t.EnumValues = enumVals("X", "Y", "Z") })
	add("remove-enum-value", func(s *schema) { t := s.typ("E"); t.EnumValues = enumVals("X") })
	add("replace-enum-value", func(s *schema) { t := s.typ("E"); t.EnumValues = enumVals("X", "Z") }) // neither set contains the other
	add("replace-first-enum-value", func(s *schema) { t := s.typ("E"); t.EnumValues = enumVals("A", "Y") })
	add("remove-union-member", func(s *schema) { t := s.typ("U"); t.PossibleTypes = t.PossibleTypes[:1] })
	add("add-type-and-union-member", func(s *schema) {
		s.Types = append(s.Types, typ{Name: "C", Kind: "OBJECT", Fields: []fld{{Name: "z", Type: named("SCALAR", "Int")}}})
		t := s.typ("U")
		t.PossibleTypes = append(t.PossibleTypes, named("OBJECT", "C"))
	})
	// the same new type name as add-type-and-field, as another kind (next to a version that lacks it: a kind that
	// changes between two versions that are not neighbours)
	add("add-enum-type-and-field", func(s *schema) {
		s.Types = append(s.Types, typ{Name: "D", Kind: "ENUM", EnumValues: enumVals("P", "Q")})
		t := s.typ("A")
		t.Fields = append(t.Fields, fld{Name: "dd", Type: named("ENUM", "D")})
	})
	add("add-type-and-field", func(s *schema) {
		s.Types = append(s.Types, typ{Name: "D", Kind: "OBJECT", Fields: []fld{{Name: "d", Type: nn(named("SCALAR", "String"))}}})
		t := s.typ("A")
		t.Fields = append(t.Fields, fld{Name: "dd", Type: named("OBJECT", "D")})
	})
	add("remove-type-with-references", func(s *schema) {
		refers := func(t *tref) bool {
			for t.OfType != nil {
				t = t.OfType
			}
			return t.Name == "B"
		}
		var keep []typ
		for _, t := range s.Types {
			if t.Name == "B" {
				continue
			}
			var fs []fld
			for _, f := range t.Fields {
				if !refers(f.Type) {
					fs = append(fs, f)
				}
			}
			t.Fields = fs
			var ps []*tref
			for _, p := range t.PossibleTypes {
				if p.Name != "B" {
					ps = append(ps, p)
				}
			}
			t.PossibleTypes = ps
			keep = append(keep, t)
		}
		s.Types = keep
	})
	add("change-field-named-type", func(s *schema) { s.typ("A").Fields[1].Type = named("SCALAR", "Int") })
	// a field that keeps its name and the kind of its type but returns another object / union type (both types exist on both sides)
	add("change-field-object-type", func(s *schema) { s.typ("A").Fields[2].Type = named("OBJECT", "A") })
	add("change-root-field-object-type", func(s *schema) { s.typ("Query").Fields[0].Type = nn(named("OBJECT", "B")) })
	add("change-arg-named-type", func(s *schema) { s.typ("Query").Fields[3].Args[0].Type = nn(named("SCALAR", "String")) })
	add("field-list-vs-scalar", func(s *schema) { s.typ("A").Fields[1].Type = list(named("SCALAR", "String")) })
	// toggle NON_NULL at every nesting position of output and input types
	for _, pos := range []struct {
		typ   string
		field int
		lvl   int
	}{{"Query", 0, 0}, {"Query", 1, 0}, {"Query", 1, 1}, {"Query", 2, 0}, {"A", 0, 0}, {"A", 1, 0}, {"B", 0, 0}, {"Query", 4, 0}} {
		pos := pos
		add(fmt.Sprintf("toggle-output-nonnull(%s.%d@%d)", pos.typ, pos.field, pos.lvl), func(s *schema) {
			f := &s.typ(pos.typ).Fields[pos.field]
			f.Type = toggle(f.Type, pos.lvl)
		})
	}
	for _, pos := range []struct{ arg, lvl int }{{0, 0}, {1, 0}, {2, 0}, {2, 1}} {
		pos := pos
		add(fmt.Sprintf("toggle-arg-nonnull(%d@%d)", pos.arg, pos.lvl), func(s *schema) {
			a := &s.typ("Query").Fields[3].Args[pos.arg]
			a.Type = toggle(a.Type, pos.lvl)
		})
	}
	for _, i := range []int{0, 1} {
		i := i
		add(fmt.Sprintf("toggle-inputfield-nonnull(%d)", i), func(s *schema) {
			f := &s.typ("In").InputFields[i]
			f.Type = toggle(f.Type, 0)
		})
	}
	return es
}

type variant struct {
	name string
	s    *schema
}

func variants(depth int) []variant {
	es := edits()
	out := []variant{{"base", base()}}
	for i, e := range es {
		s := base()
		e.f(s)
		out = append(out, variant{e.name, s})
		if depth >= 2 {
			for _, e2 := range es[i+1:] {
				s2 := clone(s)
				ok := func() (ok bool) {
					defer func() {
						if recover() != nil {
							ok = false
						}
					}()
					e2.f(s2)
					return true
				}()
				if ok && wellFormedInput(s2) {
					out = append(out, variant{e.name + "+" + e2.name, s2})
				}
			}
		}
	}
	return out
}

// wellFormedInput says whether a schema produced by two composed edits is one a service could report: type names
// and the field names of a type are unique, and every named type that is referred to exists (two edits may add the
// same type, or one may remove a type the other points a field at).
func wellFormedInput(s *schema) bool {
	names := map[string]bool{}
	for _, t := range s.Types {
		if names[t.Name] {
			return false
		}
		names[t.Name] = true
	}
	leaf := func(t *tref) string {
		for t != nil && t.OfType != nil {
			t = t.OfType
		}
		if t == nil {
			return ""
		}
		return t.Name
	}
	for _, t := range s.Types {
		seen := map[string]bool{}
		for _, f := range t.Fields {
			if seen[f.Name] || !names[leaf(f.Type)] {
				return false
			}
			seen[f.Name] = true
			for _, a := range f.Args {
				if !names[leaf(a.Type)] {
					return false
				}
			}
		}
		for _, f := range t.InputFields {
			if !names[leaf(f.Type)] {
				return false
			}
		}
		for _, p := range t.PossibleTypes {
			if !names[p.Name] {
				return false
			}
		}
	}
	return true
}

func toResult(s *schema) *federation.IntrospectionQueryResult {
	b, _ := json.Marshal(doc{Schema: *s})
	var r federation.IntrospectionQueryResult
	if err := json.Unmarshal(b, &r); err != nil {
		panic(err)
	}
	return &r
}

func fromResult(r *federation.IntrospectionQueryResult) *schema {
	b, _ := json.Marshal(r)
	var d doc
	if err := json.Unmarshal(b, &d); err != nil {
		panic(err)
	}
	return &d.Schema
}

// canon renders a schema in a canonical, order-free textual form.
func canon(s *schema) string {
	var lines []string
	for _, t := range s.Types {
		lines = append(lines, "type "+t.Kind+" "+t.Name)
		for _, f := range t.Fields {
			lines = append(lines, fmt.Sprintf("field %s.%s: %s", t.Name, f.Name, f.Type))
			for _, a := range f.Args {
				lines = append(lines, fmt.Sprintf("arg %s.%s(%s: %s)", t.Name, f.Name, a.Name, a.Type))
			}
		}
		for _, f := range t.InputFields {
			lines = append(lines, fmt.Sprintf("input %s.%s: %s", t.Name, f.Name, f.Type))
		}
		for _, p := range t.PossibleTypes {
			lines = append(lines, fmt.Sprintf("member %s|%s", t.Name, p.Name))
		}
		for _, e := range t.EnumValues {
			lines = append(lines, fmt.Sprintf("enum %s.%s", t.Name, e.Name))
		}
	}
	sort.Strings(lines)
	return strings.Join(lines, "\n")
}

// elements flattens a schema into "kind key" -> type ref (nil for untyped elements).
func elements(s *schema) map[string]*tref {
	out := map[string]*tref{}
	for _, t := range s.Types {
		out["type "+t.Name+" "+t.Kind] = nil
		for _, f := range t.Fields {
			out["field "+t.Name+"."+f.Name] = f.Type
			for _, a := range f.Args {
				out["arg "+t.Name+"."+f.Name+"("+a.Name+")"] = a.Type
			}
		}
		for _, f := range t.InputFields {
			out["input "+t.Name+"."+f.Name] = f.Type
		}
		for _, p := range t.PossibleTypes {
			out["member "+t.Name+"|"+p.Name] = nil
		}
		for _, e := range t.EnumValues {
			out["enum "+t.Name+"."+e.Name] = nil
		}
	}
	return out
}

func isInputElem(k string) bool {
	return strings.HasPrefix(k, "arg ") || strings.HasPrefix(k, "input ")
}

// parentOf returns the element an element hangs off (arguments hang off their field).
func parentOf(k string) string {
	if strings.HasPrefix(k, "arg ") {
		return "field " + k[4:strings.Index(k, "(")]
	}
	return ""
}

// checkMerged verifies the property's clauses for merged = combine(inputs) where mode says how.
// versions: the inputs are versions of one service (only what all support);
// otherwise they are services (everything at least one supports).
func checkMerged(inputs []*schema, merged *schema, versions bool) (clause, msg string) {
	m := elements(merged)
	ins := make([]map[string]*tref, len(inputs))
	for i, s := range inputs {
		ins[i] = elements(s)
	}
	count := func(k string) (n int, refs []*tref) {
		for _, in := range ins {
			if r, ok := in[k]; ok {
				n++
				refs = append(refs, r)
			}
		}
		return
	}
	for k, mr := range m {
		n, refs := count(k)
		if n == 0 {
			return "only-what-inputs-have", fmt.Sprintf("%s is in the merged schema but in none of the inputs", k)
		}
		if versions && n != len(inputs) {
			return "only-what-all-versions-support", fmt.Sprintf("%s is in the merged schema but only %d of %d versions have it", k, n, len(inputs))
		}
		if mr == nil {
			continue
		}
		for _, r := range refs {
			if r.shape() != mr.shape() {
				return "types-compatible", fmt.Sprintf("%s has type %s in the merged schema but %s in an input", k, mr, r)
			}
		}
		// nullability lattice per nesting level
		mn := mr.nullability()
		for lvl := range mn {
			anyNon, allNon := false, true
			for _, r := range refs {
				rn := r.nullability()
				if lvl < len(rn) && rn[lvl] {
					anyNon = true
				} else {
					allNon = false
				}
			}
			if isInputElem(k) {
				if mn[lvl] != anyNon {
					return "input-required-iff-any", fmt.Sprintf("%s: merged type %s, inputs %v (level %d must be required iff any side requires it)", k, mr, refs, lvl)
				}
			} else if mn[lvl] != allNon {
				return "output-nonnull-iff-all", fmt.Sprintf("%s: merged type %s, inputs %v (level %d must be non-null iff every side guarantees it)", k, mr, refs, lvl)
			}
		}
	}
	// completeness
	seen := map[string]bool{}
	for _, in := range ins {
		for k := range in {
			if seen[k] {
				continue
			}
			seen[k] = true
			n, _ := count(k)
			should := n == len(inputs) || !versions
			if par := parentOf(k); par != "" {
				// an argument can only be kept if its field is kept
				if _, ok := m[par]; !ok {
					should = false
				}
				// an argument known to only some of the sides that have the field is kept by a union of services
				pn, _ := count(par)
				if versions && n != pn {
					should = false
				}
			}
			if _, ok := m[k]; should && !ok {
				if versions {
					return "everything-all-versions-support", fmt.Sprintf("%s is supported by every version but missing from the merged schema", k)
				}
				return "everything-some-service-supports", fmt.Sprintf("%s is supported by a service but missing from the merged schema", k)
			}
		}
	}
	// closure: every referenced type is present
	types := map[string]bool{}
	for _, t := range merged.Types {
		types[t.Name] = true
	}
	for k, r := range m {
		if r != nil {
			nm := r
			for nm.OfType != nil {
				nm = nm.OfType
			}
			if !types[nm.Name] {
				return "closure", fmt.Sprintf("%s refers to type %s which is not in the merged schema", k, nm.Name)
			}
		}
		if strings.HasPrefix(k, "member ") {
			if p := k[strings.Index(k, "|")+1:]; !types[p] {
				return "closure", fmt.Sprintf("%s names a possible type that is not in the merged schema", k)
			}
		}
	}
	return "", ""
}

type ss = map[string]map[string]*federation.IntrospectionQueryResult

// what the gateway keeps between polls: the same introspection objects are merged again and again, so a merge must
// neither modify its inputs nor give a different answer the second time
var mergeNote string

func merge(x ss) (s *schema, err error) {
	defer func() {
		if p := recover(); p != nil {
			err = fmt.Errorf("PANIC: %v", p)
		}
	}()
	before, _ := json.Marshal(x)
	r, err := federation.MergeIntrospectionSchemas(x)
	after, _ := json.Marshal(x)
	if string(before) != string(after) {
		mergeNote = "inputs-unmodified: MergeIntrospectionSchemas modified the schemas it was given"
	}
	if err != nil {
		return nil, err
	}
	first := fromResult(r)
	if r2, err2 := federation.MergeIntrospectionSchemas(x); err2 != nil {
		mergeNote = "repeatable: merging the same schema objects a second time failed: " + err2.Error()
	} else if canon(fromResult(r2)) != canon(first) {
		mergeNote = "repeatable: merging the same schema objects a second time gave a different schema"
	}
	return first, nil
}

func run(rp *explore.Report, tier string) {
	depth := 1
	if tier == "thorough" {
		depth = 2
	}
	vs := variants(depth)
	var k int64
	fail := func(clause, class, item, msg string) {
		rp.AddViolation(&explore.Violation{Item: item, Signature: "c09/" + clause + "/" + class, Stable: true,
			Failures: []explore.Failure{{Clause: clause, Msg: msg}}})
	}
	pairLimit := len(vs)
	check := func(kind string, names []string, inputs []*schema, build func(perm []int, rename bool) ss, versions bool) {
		k++
		if !rp.Mine(k) {
			return
		}
		rp.Cases++
		item := kind + ": " + strings.Join(names, " , ")
		n := len(inputs)
		perms := [][]int{{0, 1}, {1, 0}}
		if n == 3 {
			perms = [][]int{{0, 1, 2}, {1, 0, 2}, {2, 1, 0}, {0, 2, 1}, {1, 2, 0}, {2, 0, 1}}
		}
		var first string
		var firstErr error
		for pi, perm := range perms {
			for _, rename := range []bool{false, true} {
				mergeNote = ""
				m, err := merge(build(perm, rename))
				if mergeNote != "" {
					fail(strings.SplitN(mergeNote, ":", 2)[0], kind, item, mergeNote)
					return
				}
				if err != nil && strings.HasPrefix(err.Error(), "PANIC") {
					fail("no-panic", kind, item, err.Error())
					return
				}
				c := ""
				if err == nil {
					c = canon(m)
				}
				if pi == 0 && !rename {
					first, firstErr = c, err
					if err == nil {
						rp.Nontrivial++
						if clause, msg := checkMerged(inputs, m, versions); clause != "" {
							fail(clause, kind, item, msg)
						}
					}
					continue
				}
				if (err == nil) != (firstErr == nil) {
					e := err
					if e == nil {
						e = firstErr
					}
					class := kind + "/other-error"
					if strings.Contains(e.Error(), "is non-null") {
						class = kind + "/required-input-unknown-to-another-side"
					} else if strings.Contains(e.Error(), "kinds ") && strings.Contains(e.Error(), " differ") || strings.Contains(e.Error(), "types must be identical") {
						class = kind + "/conflicting-kinds-hidden-by-a-side-without-the-type"
					}
					fail("order-independent", class, item, fmt.Sprintf("merging fails in one order/naming (%v) and succeeds in another (%v)", firstErr, err))
					return
				}
				if err == nil && c != first {
					fail("order-independent", kind, item, "the merged schema depends on the order or the names of the inputs")
					return
				}
			}
		}
		if rp.Cases%499 == 1 {
			rp.AddSample(map[string]interface{}{"case": item, "merge_error": fmt.Sprint(firstErr)})
		}
	}
	for i := 0; i < pairLimit; i++ {
		for j := i; j < pairLimit; j++ {
			a, b := vs[i], vs[j]
			res := []*federation.IntrospectionQueryResult{toResult(a.s), toResult(b.s)}
			// two versions of one service
			check("versions", []string{a.name, b.name}, []*schema{a.s, b.s}, func(perm []int, rename bool) ss {
				vn := []string{"v1", "v2"}
				if rename {
					vn = []string{"zeta", "alpha"}
				}
				return ss{"svc": {vn[0]: res[perm[0]], vn[1]: res[perm[1]]}}
			}, true)
			// two services
			check("services", []string{a.name, b.name}, []*schema{a.s, b.s}, func(perm []int, rename bool) ss {
				sn := []string{"s1", "s2"}
				if rename {
					sn = []string{"zeta", "alpha"}
				}
				return ss{sn[0]: {"": res[perm[0]]}, sn[1]: {"": res[perm[1]]}}
			}, false)
		}
	}
	// triples: three versions; three services (single-edit variants only, to bound the count)
	single := variants(1)
	step := 1
	for i := 0; i < len(single); i += step {
		for j := i; j < len(single); j += step {
			for l := j; l < len(single); l += step {
				a, b, c := single[i], single[j], single[l]
				res := []*federation.IntrospectionQueryResult{toResult(a.s), toResult(b.s), toResult(c.s)}
				check("3-versions", []string{a.name, b.name, c.name}, []*schema{a.s, b.s, c.s}, func(perm []int, rename bool) ss {
					vn := []string{"v1", "v2", "v3"}
					if rename {
						vn = []string{"c", "a", "b"}
					}
					return ss{"svc": {vn[0]: res[perm[0]], vn[1]: res[perm[1]], vn[2]: res[perm[2]]}}
				}, true)
				check("3-services", []string{a.name, b.name, c.name}, []*schema{a.s, b.s, c.s}, func(perm []int, rename bool) ss {
					sn := []string{"s1", "s2", "s3"}
					if rename {
						sn = []string{"c", "a", "b"}
					}
					return ss{sn[0]: {"": res[perm[0]]}, sn[1]: {"": res[perm[1]]}, sn[2]: {"": res[perm[2]]}}
				}, false)
			}
		}
	}
	rp.AddOutcome(fmt.Sprintf("variants=%d", len(vs)))
	_ = reflect.DeepEqual
}

func init() {
	reg.Register(&reg.Harness{Property: "C09", Name: "c09/merge", Level: "exploration", Run: run,
		Rule: "a base introspection schema (objects, input object, enum, union, list/non-null nestings, arguments) and every schema reachable by one edit (thorough: two edits) out of 39 (add/remove type, field, nullable or required argument, input field, enum value, union member; toggle NON_NULL at each nesting level of outputs, arguments and input fields; change a named type); all unordered pairs as two versions of one service and as two services, and triples as three versions / three services, each under every permutation of the inputs and two namings. Oracle on MergeIntrospectionSchemas: the merged schema contains only what every version has / everything some service has, argument required iff any side requires it, output non-null iff every side guarantees it (per nesting level), referenced types present, identical result for every order and naming, either all orders fail or none, the inputs are left unmodified and a second merge of the same objects gives the same schema"})
}
