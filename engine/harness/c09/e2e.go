package c09

import (
	"context"
	"encoding/json"
	"fmt"
	"strings"

	"github.com/samsarahq/thunder/federation"
	"github.com/samsarahq/thunder/graphql"
	"github.com/samsarahq/thunder/graphql/introspection"
	"github.com/samsarahq/thunder/graphql/schemabuilder"
	"verif/explore"
	"verif/fix/advert"
	"verif/harness/reg"
	"vrt/rt"
)

type EUser struct {
	Id   int64
	Name string
}
type EDev struct {
	Id int64
	On bool
}
type Mode int32

// versionSpec describes what one version of service s1 exposes.
type versionSpec struct {
	name        string
	nick        bool // User.nick
	age         bool // User.age
	verboseArg  bool // user(id, verbose: *bool)
	requiredArg bool // user(id, tenant: int64) required
	secretPtr   bool // User.secret: *string (else string)
	extraRoot   bool // root field "me"
	modeExtra   bool // enum Mode has a third value
	devOnS1     bool // User.device served by s1 (else only s2 serves Device fields)
}

func buildS1(v versionSpec) *schemabuilder.Schema {
	s := schemabuilder.NewSchemaWithName(svcNames[0])
	vals := map[string]Mode{"FAST": 1, "SLOW": 2}
	if v.modeExtra {
		vals["TURBO"] = 3
	}
	s.Enum(Mode(0), vals)
	user := s.Object("User", EUser{}, schemabuilder.FetchObjectFromKeys(func(args struct{ Keys []*EUser }) []*EUser { return args.Keys }))
	user.Key("id")
	q := s.Query()
	s.Mutation()
	q.FieldFunc("users", func() []*EUser { return []*EUser{{1, "a"}} })
	switch {
	case v.requiredArg:
		q.FieldFunc("user", func(args struct {
			Id     int64
			Tenant int64
		}) *EUser {
			return &EUser{args.Id, "u"}
		})
	case v.verboseArg:
		q.FieldFunc("user", func(args struct {
			Id      int64
			Verbose *bool
		}) *EUser {
			return &EUser{args.Id, "u"}
		})
	default:
		q.FieldFunc("user", func(args struct{ Id int64 }) *EUser { return &EUser{args.Id, "u"} })
	}
	q.FieldFunc("mode", func() Mode { return 1 })
	if v.extraRoot {
		q.FieldFunc("me", func() *EUser { return &EUser{9, "me"} })
	}
	if v.nick {
		user.FieldFunc("nick", func(u *EUser) string { return "n" })
	}
	if v.age {
		user.FieldFunc("age", func(u *EUser) int64 { return 3 })
	}
	if v.secretPtr {
		user.FieldFunc("secret", func(u *EUser) *string { return nil })
	} else {
		user.FieldFunc("secret", func(u *EUser) string { return "s" })
	}
	if v.devOnS1 {
		dev := s.Object("Device", EDev{}, schemabuilder.FetchObjectFromKeys(func(args struct{ Keys []*EDev }) []*EDev { return args.Keys }))
		dev.Key("id")
		user.FieldFunc("device", func(u *EUser) *EDev { return &EDev{u.Id, true} })
	}
	return s
}

func buildS2() *schemabuilder.Schema {
	s := schemabuilder.NewSchemaWithName(svcNames[1])
	user := s.Object("User", EUser{}, schemabuilder.FetchObjectFromKeys(func(args struct{ Keys []*EUser }) []*EUser { return args.Keys }))
	user.Key("id")
	dev := s.Object("Device", EDev{}, schemabuilder.FetchObjectFromKeys(func(args struct{ Keys []*EDev }) []*EDev { return args.Keys }))
	dev.Key("id")
	s.Query().FieldFunc("devices", func() []*EDev { return []*EDev{{5, true}} })
	s.Mutation()
	user.FieldFunc("email", func(u *EUser) string { return "e" })
	dev.FieldFunc("temp", func(d *EDev) int64 { return 70 })
	dev.FieldFunc("owner", func(d *EDev) *EUser { return &EUser{1, "a"} })
	return s
}

func introspect(sb *schemabuilder.Schema) (*federation.IntrospectionQueryResult, *graphql.Schema) {
	schema := sb.MustBuild()
	introspection.AddIntrospectionToSchema(schema)
	var raw []byte
	var err error
	rt.RunDefault(func() { raw, err = introspection.RunIntrospectionQuery(schema) })
	if err != nil {
		panic(err)
	}
	var r federation.IntrospectionQueryResult
	if err := json.Unmarshal(raw, &r); err != nil {
		panic(err)
	}
	return &r, schema
}

// the names the two services (and the two versions of the first) go by; the outcome must not depend on them
var svcNames = [2]string{"s1", "s2"}

// whether ConvertVersionedSchemas rejected a pair under the first naming (every process computes all of them)
var rejected = map[string]bool{}

var namings = []struct {
	svc [2]string
	ver [2]string
}{
	{[2]string{"s1", "s2"}, [2]string{"v1", "v2"}},
	{[2]string{"core_api", "a"}, [2]string{"zeta", "alpha"}}, // the separator of federation fields in a name; reversed sort orders
	{[2]string{"a", "a_b"}, [2]string{"", "1.0_rc"}},         // a name that is a prefix of the other
}

func runE2E(rp *explore.Report, tier string) {
	for ni, naming := range namings {
		svcNames = naming.svc
		runE2ENamed(rp, ni, naming.ver)
	}
	svcNames = namings[0].svc
}

func runE2ENamed(rp *explore.Report, ni int, verNames [2]string) {
	base := versionSpec{name: "base", age: true, secretPtr: true, devOnS1: true}
	mod := func(name string, f func(v *versionSpec)) versionSpec { v := base; v.name = name; f(&v); return v }
	specs := []versionSpec{base,
		mod("adds-field", func(v *versionSpec) { v.nick = true }),
		mod("removes-field", func(v *versionSpec) { v.age = false }),
		mod("adds-optional-arg", func(v *versionSpec) { v.verboseArg = true }),
		mod("adds-required-arg", func(v *versionSpec) { v.requiredArg = true }),
		mod("nullable-to-nonnull", func(v *versionSpec) { v.secretPtr = false }),
		mod("adds-root-field", func(v *versionSpec) { v.extraRoot = true }),
		mod("adds-enum-value", func(v *versionSpec) { v.modeExtra = true }),
		mod("moves-field-off-service", func(v *versionSpec) { v.devOnS1 = false }),
	}
	r2, sch2 := introspect(buildS2())
	fail := func(clause, class, item, msg string) {
		if ni > 0 {
			clause = "naming/" + clause
		}
		rp.AddViolation(&explore.Violation{Item: item, Signature: "c09/e2e/" + clause + "/" + class, Stable: true,
			Failures: []explore.Failure{{Clause: clause, Msg: msg}}})
	}
	for i := range specs {
		for j := range specs {
			if i == j {
				continue
			}
			if !rp.Mine(int64(i*len(specs) + j)) { // one process sees a pair under every naming
				continue
			}
			if ni > 0 && (i+j)%3 != 0 { // a third of the pairs under the other namings
				continue
			}
			va, vb := specs[i], specs[j]
			class := va.name + "|" + vb.name
			ra, scha := introspect(buildS1(va))
			rb, schb := introspect(buildS1(vb))
			schemas := map[string]map[string]*federation.IntrospectionQueryResult{svcNames[0]: {verNames[0]: ra, verNames[1]: rb}, svcNames[1]: {"": r2}}
			versionSchemas := map[string][]*graphql.Schema{svcNames[0]: {scha, schb}, svcNames[1]: {sch2}}
			types, err := federation.ConvertVersionedSchemas(schemas)
			if ni == 0 {
				rejected[class] = err != nil
			} else if (err != nil) != rejected[class] {
				fail("outcome-independent-of-names", class, class, fmt.Sprintf("under the names %v / %v the pair is rejected=%v (%v), under s1 / s2 rejected=%v", svcNames, verNames, err != nil, err, rejected[class]))
				continue
			}
			if err != nil {
				// an incompatible pair (e.g. a required argument only one version knows) may be rejected as a whole
				rp.Cases++
				rp.AddOutcome("rejected: " + class)
				continue
			}
			planner, err := federation.NewPlanner(types, nil)
			if err != nil {
				fail("planner", class, class, err.Error())
				continue
			}
			merged, err := federation.MergeIntrospectionSchemas(schemas)
			if err != nil {
				fail("merge", class, class, err.Error())
				continue
			}
			mb, _ := json.Marshal(merged)
			adv, err := advert.Load(mb)
			if err != nil {
				panic(err)
			}
			for _, text := range queriesFrom(adv) {
				rp.Cases++
				q, err := graphql.Parse(text, nil)
				if err != nil {
					fail("harness-parse", class, text, err.Error())
					continue
				}
				// (the query is valid against the merged schema by construction: it only uses fields,
				// arguments and types the merged schema's own introspection advertises)
				rp.Nontrivial++
				if rp.Nontrivial%53 == 1 {
					rp.AddSample(map[string]interface{}{"versions": class, "query": text})
				}
				subs, err := planner.VerifSubQueries(q)
				if err != nil {
					fail("valid-query-is-planned", class, text, fmt.Sprintf("a query valid against the merged schema cannot be planned: %v", err))
					continue
				}
				for _, sq := range subs {
					if sq.Service == federation.IntrospectionClientName {
						continue
					}
					for vi, vs := range versionSchemas[sq.Service] {
						wire, err := federation.MarshalQuery(sq.Query)
						var onWire *graphql.Query
						if err == nil {
							onWire, err = federation.UnmarshalQuery(wire)
						}
						if err == nil {
							typ := vs.Query
							if onWire.Kind == "mutation" {
								typ = vs.Mutation
							}
							err = graphql.PrepareQuery(context.Background(), typ, onWire.SelectionSet)
						}
						if err != nil {
							fail("subquery-valid-on-every-version", class, text, fmt.Sprintf("the part sent to %s does not validate against its version %d: %v", sq.Service, vi+1, err))
						}
					}
				}
			}
		}
	}
}

// queriesFrom generates well-formed queries over the advertised merged schema (internal federation fields excluded).
func queriesFrom(a *advert.Advertised) []string {
	var out []string
	q := a.Types[a.Query]
	visible := func(t *advert.TypeDef) *advert.TypeDef {
		c := *t
		c.Fields = nil
		for _, f := range t.Fields {
			if !strings.HasPrefix(f.Name, "_") {
				c.Fields = append(c.Fields, f)
			}
		}
		return &c
	}
	for name, t := range a.Types {
		a.Types[name] = visible(t)
	}
	q = a.Types[a.Query]
	for i := range q.Fields {
		f := &q.Fields[i]
		ft := a.Types[f.Type.Named().Name]
		out = append(out, "{ "+a.Print([]*advert.Sel{a.SelectField(f, f.Name, 0)})+" }")
		out = append(out, "{ "+a.Print([]*advert.Sel{a.SelectField(f, f.Name, 1)})+" }")
		out = append(out, "{ "+a.Print([]*advert.Sel{a.SelectField(f, f.Name, 2)})+" }")
		if ft.Kind == "OBJECT" {
			for j := range ft.Fields {
				g := &ft.Fields[j]
				out = append(out, "{ "+a.Print([]*advert.Sel{{Alias: f.Name, Field: f, Sub: []*advert.Sel{a.SelectField(g, g.Name, 1)}}})+" }")
			}
		}
	}
	return out
}

func init() {
	reg.Register(&reg.Harness{Property: "C09", Name: "c09/e2e", Level: "exploration", Run: runE2E,
		Rule: "end-to-end part: service s1 in every ordered pair of 9 schemabuilder-built versions (field added/removed, optional or required argument added, nullable->non-null, root field added, enum value added, field moved to another service) next to a fixed service s2; the versioned schemas go through ConvertVersionedSchemas/NewPlanner; every generated query (from the merged schema's own introspection, depth<=2, arguments synthesised) that validates against the merged schema must be planned, and every resulting sub-query, after its protobuf round trip, must validate against every version of the service it is sent to; a third of the pairs again under two other namings of the services and versions (a name containing the federation-field separator, a name that is a prefix of the other, reversed sort orders, an empty version name): accepted or rejected like under s1/s2, and the same oracle"})
}
