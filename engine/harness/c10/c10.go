// Package c10: SQL batching is transparent — each query gets exactly its own rows.
package c10

import (
	"context"
	"database/sql/driver"
	"fmt"
	"reflect"
	"sort"
	"strings"
	"time"

	"github.com/samsarahq/thunder/batch"
	"github.com/samsarahq/thunder/sqlgen"
	"verif/explore"
	"verif/fix/fakesql"
	"verif/harness/reg"
	"vrt/rt"
)

type NamedStr string

type Person struct {
	Id    int64  `sql:",primary"`
	Memo  string `sql:"-"` // not a column: the columns after it sit at another struct index than their column order
	Age   *int64
	City  string
	Score int32
	Tag   NamedStr
	Nick  string `sql:",implicitnull"`
	Blob  []byte
	// a column whose name is what joining the names "city" and "id" with an underscore gives
	CityId int64 `sql:"city_id"`
	// columns whose SQL value is not the Go value itself: a self-serialising type, an instant, a large unsigned number
	Bin Pair `sql:",binary"`
	At  time.Time
	Big uint64
}

// Pair is stored through its binary marshalling.
type Pair struct{ A, B byte }

func (p Pair) MarshalBinary() ([]byte, error) { return []byte{p.A, p.B}, nil }
func (p *Pair) UnmarshalBinary(b []byte) error {
	if len(b) != 2 {
		return fmt.Errorf("Pair: %d bytes", len(b))
	}
	p.A, p.B = b[0], b[1]
	return nil
}

var (
	t0     = time.Date(2020, 1, 2, 3, 4, 5, 0, time.UTC)
	t1     = time.Date(2021, 1, 1, 0, 0, 0, 0, time.UTC)
	plus2  = time.FixedZone("plus2", 2*3600)
	bigVal = uint64(1)<<63 + 5
)

// extraCols gives the values of the three columns above for the row with this id.
func extraCols(id int64) []driver.Value {
	if id%2 == 1 {
		return []driver.Value{[]byte{1, 2}, t0, int64(bigVal)}
	}
	return []driver.Value{[]byte{3, 4}, t1, int64(7)}
}

// Other is a second table sharing the batching context (shards must not mix).
type Other struct {
	Id   int64 `sql:",primary"`
	City string
}

func i64p(v int64) *int64 { return &v }

type qspec struct {
	name  string
	table string // "people" | "others"
	f     sqlgen.Filter
	row   bool // QueryRow instead of Query
}

func filters() []qspec {
	var nilp *int64
	fs := []qspec{
		{name: "{}", f: sqlgen.Filter{}},
		{name: "nil", f: nil},
		{name: "id=int64(1)", f: sqlgen.Filter{"id": int64(1)}},
		{name: "id=int(1)", f: sqlgen.Filter{"id": int(1)}},
		{name: "id=int32(2)", f: sqlgen.Filter{"id": int32(2)}},
		{name: "id=&int64(2)", f: sqlgen.Filter{"id": i64p(2)}},
		{name: "id=int64(9)", f: sqlgen.Filter{"id": int64(9)}},
		{name: "age=int64(30)", f: sqlgen.Filter{"age": int64(30)}},
		{name: "age=&int64(30)", f: sqlgen.Filter{"age": i64p(30)}},
		{name: "age=int(30)", f: sqlgen.Filter{"age": 30}},
		{name: "age=int64(41)", f: sqlgen.Filter{"age": int64(41)}},
		{name: "age=nil", f: sqlgen.Filter{"age": nil}},
		{name: "age=(*int64)(nil)", f: sqlgen.Filter{"age": nilp}},
		{name: "city=sf", f: sqlgen.Filter{"city": "sf"}},
		{name: "city=NamedStr(sf)", f: sqlgen.Filter{"city": NamedStr("sf")}},
		{name: "city=la", f: sqlgen.Filter{"city": "la"}},
		{name: "tag=NamedStr(x)", f: sqlgen.Filter{"tag": NamedStr("x")}},
		{name: "tag=string(x)", f: sqlgen.Filter{"tag": "x"}},
		{name: "score=int32(5)", f: sqlgen.Filter{"score": int32(5)}},
		{name: "score=int64(5)", f: sqlgen.Filter{"score": int64(5)}},
		{name: "score=int(5)", f: sqlgen.Filter{"score": 5}},
		{name: "city=sf,age=30", f: sqlgen.Filter{"city": "sf", "age": int64(30)}},
		{name: "city=sf,age=int(30)", f: sqlgen.Filter{"city": "sf", "age": 30}},
		{name: "city=sf,age=nil", f: sqlgen.Filter{"city": "sf", "age": nil}},
		{name: "city=la,age=41", f: sqlgen.Filter{"city": "la", "age": i64p(41)}},
		{name: "row:id=int64(1)", f: sqlgen.Filter{"id": int64(1)}, row: true},
		{name: "row:id=int(2)", f: sqlgen.Filter{"id": 2}, row: true},
		{name: "row:city=sf", f: sqlgen.Filter{"city": "sf"}, row: true},
		{name: "row:id=int64(9)", f: sqlgen.Filter{"id": int64(9)}, row: true},
		{name: "nick=empty(implicit NULL)", f: sqlgen.Filter{"nick": ""}},
		{name: "nick=n", f: sqlgen.Filter{"nick": "n"}},
		{name: "blob=[]byte(nil)", f: sqlgen.Filter{"blob": []byte(nil)}},
		{name: "blob=b", f: sqlgen.Filter{"blob": []byte("b")}},
		{name: "city=sf,nick=empty", f: sqlgen.Filter{"city": "sf", "nick": ""}},
		{name: "row:nick=empty", f: sqlgen.Filter{"nick": ""}, row: true},
		{name: "city_id=7", f: sqlgen.Filter{"city_id": int64(7)}},
		{name: "city=sf,id=1", f: sqlgen.Filter{"city": "sf", "id": int64(1)}},
		{name: "bin=Pair{1,2}", f: sqlgen.Filter{"bin": Pair{1, 2}}},
		{name: "bin=&Pair{3,4}", f: sqlgen.Filter{"bin": &Pair{3, 4}}},
		{name: "at=t0", f: sqlgen.Filter{"at": t0}},
		{name: "at=t0(other zone)", f: sqlgen.Filter{"at": t0.In(plus2)}},
		{name: "at=&t1", f: sqlgen.Filter{"at": &t1}},
		{name: "big=2^63+5", f: sqlgen.Filter{"big": bigVal}},
		{name: "big=7", f: sqlgen.Filter{"big": uint64(7)}},
		{name: "city=empty", f: sqlgen.Filter{"city": ""}},
		{name: "score=int32(0)", f: sqlgen.Filter{"score": int32(0)}},
		{name: "city_id=0", f: sqlgen.Filter{"city_id": int64(0)}},
		{name: "others:city=sf", table: "others", f: sqlgen.Filter{"city": "sf"}},
		{name: "others:id=int(1)", table: "others", f: sqlgen.Filter{"id": 1}},
	}
	for i := range fs {
		if fs[i].table == "" {
			fs[i].table = "people"
		}
	}
	return fs
}

var contents = [][][]driver.Value{
	{ // duplicates, NULLs
		{int64(1), int64(30), "sf", int64(5), "x", "n", []byte("b"), int64(7)},
		{int64(2), int64(30), "sf", int64(5), "y", nil, nil, int64(7)},
		{int64(3), nil, "sf", int64(0), "x", nil, []byte("b"), int64(8)},
		{int64(4), int64(41), "la", int64(5), "", "m", nil, int64(1)},
	},
	{ // single row
		{int64(1), nil, "la", int64(5), "x", nil, nil, int64(7)},
	},
	{}, // empty table
	{ // NULL in columns whose Go field is not a pointer (decoded as the zero value; no SQL comparison matches them)
		{int64(1), int64(30), "sf", int64(5), "x", "n", []byte("b"), int64(7)},
		{int64(2), nil, nil, nil, nil, nil, nil, nil},
		{int64(3), int64(30), nil, int64(0), "", nil, nil, int64(0)},
	},
}

type env struct {
	fdb *fakesql.DB
	db  *sqlgen.DB
}

func newEnv(content int) *env {
	schema := sqlgen.NewSchema()
	schema.MustRegisterType("people", sqlgen.UniqueId, Person{})
	schema.MustRegisterType("others", sqlgen.UniqueId, Other{})
	fdb := fakesql.New()
	for _, t := range schema.ByName {
		fdb.AddTable(t)
	}
	for _, r := range contents[content] {
		fdb.Tables["people"].Rows = append(fdb.Tables["people"].Rows, append(append([]driver.Value{}, r...), extraCols(r[0].(int64))...))
	}
	fdb.Tables["others"].Rows = [][]driver.Value{{int64(1), "sf"}, {int64(2), "la"}}
	return &env{fdb: fdb, db: sqlgen.NewDB(fdb.Open(), schema)}
}

type outcome struct {
	keys []int64
	err  string // "" | "no-rows" | "many" | "other:..."
}

func classify(err error) string {
	switch {
	case err == nil:
		return ""
	case strings.Contains(err.Error(), "no rows"):
		return "no-rows"
	case strings.Contains(err.Error(), "no more than 1"):
		return "many"
	}
	return "other: " + err.Error()
}

func (e *env) runQuery(ctx context.Context, q qspec) outcome {
	var out outcome
	if q.table == "others" {
		var rows []*Other
		out.err = classify(e.db.Query(ctx, &rows, q.f, nil))
		for _, r := range rows {
			out.keys = append(out.keys, r.Id)
		}
	} else if q.row {
		var row *Person
		out.err = classify(e.db.QueryRow(ctx, &row, q.f, nil))
		if row != nil {
			out.keys = append(out.keys, row.Id)
		}
	} else {
		var rows []*Person
		out.err = classify(e.db.Query(ctx, &rows, q.f, nil))
		for _, r := range rows {
			if r == nil {
				out.keys = append(out.keys, -1)
				continue
			}
			out.keys = append(out.keys, r.Id)
		}
	}
	sort.Slice(out.keys, func(i, j int) bool { return out.keys[i] < out.keys[j] })
	return out
}

func item(content int, idx []int) *explore.Item { return itemSlow(content, idx, false) }

// slow: a SELECT stays in flight for one scheduling step (a query arriving while another batch's statement runs)
func itemSlow(content int, idx []int, slow bool) *explore.Item {
	fs := filters()
	var names []string
	for _, i := range idx {
		names = append(names, fs[i].name)
	}
	name := fmt.Sprintf("content=%d queries=%s", content, strings.Join(names, " | "))
	bound := -1
	if slow {
		name = "slow " + name
		bound = 2 // an early wait-interval timer and one preemption inside the statement
	}
	return &explore.Item{Name: name, Bound: bound, MaxSteps: 4000, Body: func(x *explore.Exec) {
		// run A: each query alone, no batching context
		ref := newEnv(content)
		x.Cleanup(ref.fdb.Close)
		want := make([]outcome, len(idx))
		for n, i := range idx {
			want[n] = ref.runQuery(context.Background(), fs[i])
		}
		// run B: all queries concurrently under one batching context
		e := newEnv(content)
		x.Cleanup(e.fdb.Close)
		e.fdb.SlowSelect = slow
		ctx := batch.WithBatching(context.Background())
		got := make([]outcome, len(idx))
		done := make([]bool, len(idx))
		for n, i := range idx {
			n, i := n, i
			rt.Go(func() {
				got[n] = e.runQuery(ctx, fs[i])
				done[n] = true
			})
		}
		rt.Quiesce()
		for n, i := range idx {
			cls := fs[i].name
			if !done[n] {
				x.Fail("returns", "c10/returns/"+cls, "query %s never returned", fs[i].name)
				continue
			}
			if !reflect.DeepEqual(got[n], want[n]) {
				x.Fail("own-rows", "c10/own-rows/"+cls, "query %s: batched gives keys=%v err=%q, alone gives keys=%v err=%q (statements: %s)",
					fs[i].name, got[n].keys, got[n].err, want[n].keys, want[n].err, stmts(e.fdb))
			}
		}
		x.Outcome("statements=%d", len(e.fdb.Log))
		if len(e.fdb.Log) < len(idx) {
			x.Nontrivial() // at least two queries were combined into one statement
		}
	}}
}

// txItem: one caller queries inside a transaction that holds an uncommitted row, another outside it, on one
// batching context. Alone, the first sees its own write and the second does not (the fake driver isolates reads);
// together they must get the same.
func txItem(f1, f2 int) *explore.Item {
	fs := filters()
	name := fmt.Sprintf("tx %s | %s", fs[f1].name, fs[f2].name)
	return &explore.Item{Name: name, Bound: -1, MaxSteps: 4000, Body: func(x *explore.Exec) {
		newRow := &Person{Id: 9, Age: i64p(30), City: "sf", Score: 5, Tag: "x", Nick: "n", Blob: []byte("b"), CityId: 7}
		run := func(batched bool) (inTx, outside outcome, ok bool) {
			e := newEnv(0)
			x.Cleanup(e.fdb.Close)
			e.fdb.Isolate = true
			ctx := context.Background()
			if batched {
				ctx = batch.WithBatching(ctx)
			}
			tctx, tx, err := e.db.WithTx(ctx)
			if err != nil {
				x.Fail("harness", "", "WithTx: %v", err)
				return
			}
			if _, err := e.db.InsertRow(tctx, newRow); err != nil {
				x.Fail("harness", "", "insert in tx: %v", err)
				return
			}
			d1, d2 := false, false
			if batched {
				rt.Go(func() { inTx = e.runQuery(tctx, fs[f1]); d1 = true })
				rt.Go(func() { outside = e.runQuery(ctx, fs[f2]); d2 = true })
				rt.Quiesce()
			} else {
				inTx, d1 = e.runQuery(tctx, fs[f1]), true
				outside, d2 = e.runQuery(ctx, fs[f2]), true
			}
			tx.Rollback()
			return inTx, outside, d1 && d2
		}
		w1, w2, _ := run(false)
		g1, g2, ok := run(true)
		if !ok {
			x.Fail("returns", "c10/tx/returns", "a query never returned")
			return
		}
		if !reflect.DeepEqual(g1, w1) {
			x.Fail("own-rows", "c10/tx/in-transaction", "query %s inside the transaction: with batching keys=%v err=%q, alone keys=%v err=%q", fs[f1].name, g1.keys, g1.err, w1.keys, w1.err)
		}
		if !reflect.DeepEqual(g2, w2) {
			x.Fail("own-rows", "c10/tx/outside", "query %s outside the transaction: with batching keys=%v err=%q, alone keys=%v err=%q", fs[f2].name, g2.keys, g2.err, w2.keys, w2.err)
		}
		x.Outcome("tx")
		x.Nontrivial()
	}}
}

func stmts(d *fakesql.DB) string {
	var parts []string
	for _, s := range d.Log {
		parts = append(parts, fmt.Sprintf("%s %v", s.SQL, s.Args))
	}
	return strings.Join(parts, " ;; ")
}

func parseItem(name string) *explore.Item {
	if strings.HasPrefix(name, "tx ") {
		qs := strings.Split(strings.TrimPrefix(name, "tx "), " | ")
		fs := filters()
		idx := []int{0, 0}
		for n, q := range qs {
			for i := range fs {
				if fs[i].name == q {
					idx[n] = i
				}
			}
		}
		return txItem(idx[0], idx[1])
	}
	var content int
	slow := strings.HasPrefix(name, "slow ")
	name = strings.TrimPrefix(name, "slow ")
	fmt.Sscanf(name, "content=%d", &content)
	qs := strings.Split(name[strings.Index(name, "queries=")+8:], " | ")
	fs := filters()
	var idx []int
	for _, q := range qs {
		for i := range fs {
			if fs[i].name == q {
				idx = append(idx, i)
			}
		}
	}
	return itemSlow(content, idx, slow)
}

func run(rp *explore.Report, tier string) {
	fs := filters()
	var k int64
	// a query inside a transaction next to one outside it
	for a := range fs {
		if fs[a].table == "others" {
			continue
		}
		for _, b := range []int{a, 0} {
			if fs[b].table == "others" {
				continue
			}
			k++
			if rp.Mine(k) {
				rp.Explore(txItem(a, b))
			}
		}
	}
	for content := range contents {
		for a := range fs {
			for b := a; b < len(fs); b++ {
				k++
				if rp.Mine(k) {
					rp.Explore(item(content, []int{a, b}))
				}
			}
		}
		// the same pairs with statements that stay in flight (first table content; a grid of pairs)
		if content == 0 {
			for a := 0; a < len(fs); a += 3 {
				for b := a; b < len(fs); b += 4 {
					k++
					if rp.Mine(k) {
						rp.Explore(itemSlow(content, []int{a, b}, true))
					}
				}
			}
		}
		// triples: one representative per column shape together with every pair of int-typed variants
		step := 7
		if tier == "thorough" {
			step = 2
		}
		for a := 0; a < len(fs); a += step {
			for b := a; b < len(fs); b += 3 {
				for c := b; c < len(fs); c += step {
					k++
					if rp.Mine(k) {
						rp.Explore(item(content, []int{a, b, c}))
					}
				}
			}
		}
	}
}

func init() {
	reg.Register(&reg.Harness{Property: "C10", Name: "c10/sqlbatch", Level: "model_checking", Bounds: [2]int{1, 2}, Run: run, Item: parseItem,
		Rule: fmt.Sprintf("4 table contents (duplicates + NULLs, single row, empty, NULL in columns of non-pointer Go type) x all pairs and a grid of triples of %d queries", len(filters())) + " (Query/QueryRow; filters on id, nullable column, string column, int32 column, implicitnull column (zero value = NULL), the zero value of a column holding NULLs, a binary-marshalled column, an instant (also in another time zone), an unsigned column beyond the int64 range, []byte column (nil), two columns, empty, nil; each value in the Go representations int / int64 / int32 / *int64 / named string / nil / typed nil pointer; a second table) run concurrently under one batch.WithBatching context (plus a grid of pairs whose SELECT stays in flight for a step, explored at bound 2 incl. an early wait-interval timer) over the real sqlgen.DB and an in-memory SQL driver with three-valued NULL logic, all schedules within the deviation bound; plus, for every filter, a query inside a transaction holding an uncommitted row next to a query outside it (the in-memory driver isolates reads); oracle: per query, rows (as a key multiset) and error kind equal the same query run alone without batching. non-trivial = executions in which the driver saw fewer statements than queries"})
}
