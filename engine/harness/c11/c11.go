// Package c11: pagination partitions the list — pages are complete, ordered and disjoint.
package c11

import (
	"context"
	"encoding/base64"
	"fmt"
	"math"
	"sort"
	"strings"

	"github.com/samsarahq/thunder/batch"
	"github.com/samsarahq/thunder/graphql"
	"github.com/samsarahq/thunder/graphql/schemabuilder"
	"verif/explore"
	"verif/fix/gqlfix"
	"verif/harness/reg"
	"vrt/rt"
)

type PItem struct {
	Id  int64
	Txt string
	Num int64
	Str string
	// Skey is the object's key in the string-keyed variant of the schema (cursors are derived from the key)
	Skey string
}

// strKeys is set while the string-keyed schema is in use: id -> key
var strKeys map[int64]string

var current []PItem // the list served by the fixture (set per case; executions are sequential)

var filterImpls = []string{"t", "tx", "tb", "tf1", "tf0", "s"}
var sortImpls = []string{"num", "numx", "numb", "numf1", "numf0", "str"}

func buildSchema() *graphql.Schema { return buildSchemaKeyed("id") }

func buildSchemaKeyed(key string) *graphql.Schema {
	s := schemabuilder.NewSchema()
	txt := func(i PItem) string { return i.Txt }
	txtE := func(i PItem) (string, error) { return i.Txt, nil }
	txtB := func(items map[batch.Index]PItem) (map[batch.Index]string, error) {
		m := make(map[batch.Index]string, len(items))
		for k, it := range items {
			m[k] = it.Txt
		}
		return m, nil
	}
	num := func(ctx context.Context, i PItem) int64 { return i.Num }
	numE := func(ctx context.Context, i PItem) (int64, error) { return i.Num, nil }
	numB := func(ctx context.Context, items map[batch.Index]PItem) (map[batch.Index]int64, error) {
		m := make(map[batch.Index]int64, len(items))
		for k, it := range items {
			m[k] = it.Num
		}
		return m, nil
	}
	yes := func(context.Context) bool { return true }
	no := func(context.Context) bool { return false }
	s.Query().FieldFunc("list", func() []PItem { return current },
		schemabuilder.Paginated,
		schemabuilder.FilterField("t", txt),
		schemabuilder.FilterField("tx", txt, schemabuilder.Expensive),
		schemabuilder.BatchFilterField("tb", txtB),
		schemabuilder.BatchFilterFieldWithFallback("tf1", txtB, txtE, yes),
		schemabuilder.BatchFilterFieldWithFallback("tf0", txtB, txtE, no),
		schemabuilder.FilterField("s", func(i PItem) string { return i.Str }),
		schemabuilder.FilterField("sx", func(i PItem) string { return i.Str }, schemabuilder.Expensive),
		schemabuilder.BatchFilterField("sb", func(items map[batch.Index]PItem) (map[batch.Index]string, error) {
			m := make(map[batch.Index]string, len(items))
			for k, it := range items {
				m[k] = it.Str
			}
			return m, nil
		}),
		schemabuilder.SortField("num", num),
		schemabuilder.SortField("numx", num, schemabuilder.Expensive),
		schemabuilder.BatchSortField("numb", numB),
		schemabuilder.BatchSortFieldWithFallback("numf1", numB, numE, yes),
		schemabuilder.BatchSortFieldWithFallback("numf0", numB, numE, no),
		schemabuilder.SortField("str", func(ctx context.Context, i PItem) string { return i.Str }),
	)
	s.Object("PItem", PItem{}).Key(key)
	s.Mutation().FieldFunc("noop", func() bool { return true })
	return s.MustBuild()
}

type params struct {
	first, last   *int64
	after, before *string
	filterText    string
	filterField   string // "" = all fields; otherwise a comma-separated list of filter fields
	sortBy        string
	desc          bool
}

func (p params) query() string {
	var a []string
	if p.first != nil {
		a = append(a, fmt.Sprintf("first: %d", *p.first))
	}
	if p.last != nil {
		a = append(a, fmt.Sprintf("last: %d", *p.last))
	}
	if p.after != nil {
		a = append(a, fmt.Sprintf("after: %q", *p.after))
	}
	if p.before != nil {
		a = append(a, fmt.Sprintf("before: %q", *p.before))
	}
	if p.filterText != "" {
		a = append(a, fmt.Sprintf("filterText: %q", p.filterText))
		if p.filterField != "" {
			var qs []string
			for _, fld := range strings.Split(p.filterField, ",") {
				qs = append(qs, fmt.Sprintf("%q", fld))
			}
			a = append(a, "filterTextFields: ["+strings.Join(qs, ", ")+"]")
		}
	}
	if p.sortBy != "" {
		a = append(a, fmt.Sprintf("sortBy: %q", p.sortBy))
		if p.desc {
			a = append(a, "sortOrder: desc")
		} else {
			a = append(a, "sortOrder: asc")
		}
	}
	args := ""
	if len(a) > 0 {
		args = "(" + strings.Join(a, ", ") + ")"
	}
	return "{ list" + args + " { totalCount edges { cursor node { id } } pageInfo { hasNextPage hasPrevPage startCursor endCursor } } }"
}

type page struct {
	total            int64
	ids              []int64
	cursors          []string
	hasNext, hasPrev bool
	start, end       string
}

func cursorOf(id int64) string {
	if strKeys != nil {
		return base64.StdEncoding.EncodeToString([]byte(strKeys[id]))
	}
	return base64.StdEncoding.EncodeToString([]byte(fmt.Sprint(id)))
}

func exec(schema *graphql.Schema, p params) (pg page, err error) {
	var res interface{}
	rt.RunDefault(func() { res, err = gqlfix.Exec(context.Background(), schema, gqlfix.FIFO{}, p.query(), nil) })
	if err != nil {
		return
	}
	defer func() {
		if r := recover(); r != nil {
			err = fmt.Errorf("malformed connection %s: %v", gqlfix.JS(res), r)
		}
	}()
	l := res.(map[string]interface{})["list"].(map[string]interface{})
	pg.total = int64(l["totalCount"].(float64))
	if es, ok := l["edges"].([]interface{}); ok {
		for _, e := range es {
			em := e.(map[string]interface{})
			pg.cursors = append(pg.cursors, em["cursor"].(string))
			pg.ids = append(pg.ids, int64(em["node"].(map[string]interface{})["id"].(float64)))
		}
	}
	pi := l["pageInfo"].(map[string]interface{})
	pg.hasNext, pg.hasPrev = pi["hasNextPage"].(bool), pi["hasPrevPage"].(bool)
	pg.start, pg.end = pi["startCursor"].(string), pi["endCursor"].(string)
	return
}

// reference list: filter then stable sort
func refList(items []PItem, p params) []int64 {
	var kept []PItem
	for _, it := range items {
		if p.filterText == "" {
			kept = append(kept, it)
			continue
		}
		tok := strings.ToLower(p.filterText)
		match := false
		// fields named s* read Str, fields named t* read Txt; an element is kept if any selected field matches
		for _, fld := range strings.Split(p.filterField, ",") {
			if fld == "" || fld[0] == 's' {
				match = match || strings.Contains(strings.ToLower(it.Str), tok)
			}
			if fld == "" || fld[0] == 't' {
				match = match || strings.Contains(strings.ToLower(it.Txt), tok)
			}
		}
		if match {
			kept = append(kept, it)
		}
	}
	if p.sortBy != "" {
		less := func(a, b PItem) bool { return a.Num < b.Num }
		if p.sortBy == "str" {
			less = func(a, b PItem) bool { return a.Str < b.Str }
		}
		sort.SliceStable(kept, func(i, j int) bool {
			if p.desc {
				return less(kept[j], kept[i])
			}
			return less(kept[i], kept[j])
		})
	}
	ids := make([]int64, len(kept))
	for i, it := range kept {
		ids[i] = it.Id
	}
	return ids
}

func indexOf(ids []int64, cursor *string) int {
	if cursor == nil {
		return -1
	}
	for i, id := range ids {
		if cursorOf(id) == *cursor {
			return i
		}
	}
	return -1
}

// refPage applies the property's page semantics to the reference list. ok=false when the
// property does not determine the answer (before does not follow after).
func refPage(ref []int64, p params) (pg page, ok bool) {
	pg.total = int64(len(ref))
	lo, hi := 0, len(ref) // candidate window [lo,hi)
	ai, bi := indexOf(ref, p.after), indexOf(ref, p.before)
	if ai >= 0 && bi >= 0 && bi <= ai {
		return pg, false
	}
	if ai >= 0 {
		lo = ai + 1
		pg.hasPrev = ai > 0 // something lies before the element named by after
	}
	if bi >= 0 {
		hi = bi
		pg.hasNext = bi < len(ref)-1 // something lies beyond the element named by before
	}
	win := ref[lo:hi]
	if p.first != nil && len(win) > int(*p.first) {
		win = win[:*p.first]
		pg.hasNext = true
	}
	if p.last != nil && len(win) > int(*p.last) {
		win = win[len(win)-int(*p.last):]
		pg.hasPrev = true
	}
	pg.ids = win
	for _, id := range win {
		pg.cursors = append(pg.cursors, cursorOf(id))
	}
	if len(win) > 0 {
		pg.start, pg.end = pg.cursors[0], pg.cursors[len(win)-1]
	}
	return pg, true
}

func eqIDs(a, b []int64) bool {
	if len(a) != len(b) {
		return false
	}
	for i := range a {
		if a[i] != b[i] {
			return false
		}
	}
	return true
}

func i64(v int64) *int64   { return &v }
func str(v string) *string { return &v }

var dataSets = [][]PItem{
	{},
	{{5, "apple", 1, "x", ""}},
	{{3, "apple", 2, "b", ""}, {1, "bapple", 1, "a", ""}, {2, "cherry", 2, "b", ""}},
	{{10, "apple", 3, "c", ""}, {20, "grape", 1, "a", ""}, {30, "Apple pie", 3, "a", ""}, {40, "fig", 2, "c", ""}},
	{{4, "app", 1, "m", ""}, {8, "bap", 1, "m", ""}, {15, "cap", 1, "m", ""}, {16, "dap", 1, "m", ""}, {23, "eel", 1, "m", ""}},
	{{9, "zapp", 5, "e", ""}, {7, "yapp", 4, "d", ""}, {5, "x", 3, "c", ""}, {3, "wapp", 2, "b", ""}, {1, "v", 1, "a", ""}},
	// sort values at the ends of the int64 range (differences that overflow)
	{{1, "app", math.MaxInt64, "a", ""}, {2, "bapp", math.MinInt64, "b", ""}, {3, "capp", 1 << 62, "c", ""}, {4, "dapp", -(1 << 62), "d", ""}, {5, "app", 0, "e", ""}, {6, "fapp", -1, "f", ""}},
}

// a longer list with many sort ties: Go's sort.Slice is only accidentally stable below 12 elements
func longList() []PItem {
	var out []PItem
	for i := 0; i < 20; i++ {
		out = append(out, PItem{Id: int64(100 - i*3), Txt: fmt.Sprintf("app%d", i%3), Num: int64(i % 2), Str: string(rune('a' + i%3))})
	}
	return out
}

type filt struct{ text, field string }
type srt struct {
	by   string
	desc bool
}

func run(rp *explore.Report, tier string) {
	schema := buildSchema()
	filters := []filt{{"", ""}, {"app", ""}, {"zzz", ""}, {"a", "s"}}
	for _, f := range filterImpls[:5] {
		filters = append(filters, filt{"app", f}, filt{"AP", f})
	}
	// several filter fields of different kinds at once, with elements that match through only one of them
	for _, combo := range []string{"", "t,sx", "s,tx", "s,tb", "tx,sb", "s,tf0", "sx,tf1", "t,sx,sb"} {
		filters = append(filters, filt{"a", combo}, filt{"c", combo})
	}
	sorts := []srt{{"", false}}
	for _, s := range sortImpls {
		sorts = append(sorts, srt{s, false}, srt{s, true})
	}
	var k int64
	violation := func(sig, item, format string, a ...interface{}) {
		rp.AddViolation(&explore.Violation{Item: item, Signature: "c11/" + sig, Stable: true,
			Failures: []explore.Failure{{Clause: strings.SplitN(sig, "/", 2)[0], Msg: fmt.Sprintf(format, a...)}}})
	}
	checkPage := func(items []PItem, p params, class string) {
		k++
		if !rp.Mine(k) {
			return
		}
		rp.Cases++
		current = items
		ref := refList(items, p)
		want, determined := refPage(ref, p)
		got, err := exec(schema, p)
		item := fmt.Sprintf("data=%v %s", items, p.query())
		if rp.Cases%1999 == 1 {
			rp.AddSample(map[string]interface{}{"data": fmt.Sprint(items), "query": p.query(), "reference_list": ref})
		}
		if err != nil {
			violation("page-error/"+class, item, "query failed: %v", err)
			return
		}
		if !determined {
			return
		}
		rp.Nontrivial++
		if got.total != want.total {
			violation("totalCount/"+class, item, "totalCount=%d, filtered count is %d", got.total, want.total)
		}
		if !eqIDs(got.ids, want.ids) {
			violation("page-content/"+class, item, "page ids %v, want %v (list %v)", got.ids, want.ids, ref)
			return
		}
		if got.hasNext != want.hasNext {
			violation("hasNextPage/"+class, item, "hasNextPage=%v, want %v (page %v of %v)", got.hasNext, want.hasNext, got.ids, ref)
		}
		if got.hasPrev != want.hasPrev {
			violation("hasPrevPage/"+class, item, "hasPrevPage=%v, want %v (page %v of %v)", got.hasPrev, want.hasPrev, got.ids, ref)
		}
		if got.start != want.start || got.end != want.end {
			violation("cursors/"+class, item, "start/end cursors %q/%q, want %q/%q", got.start, got.end, want.start, want.end)
		}
		for i := range got.cursors {
			if got.cursors[i] != want.cursors[i] {
				violation("cursors/"+class, item, "edge cursor %q for id %d, want %q", got.cursors[i], got.ids[i], want.cursors[i])
			}
		}
	}
	walk := func(items []PItem, base params, size int, forward bool, class string) {
		k++
		if !rp.Mine(k) {
			return
		}
		rp.Cases++
		rp.Nontrivial++
		current = items
		ref := refList(items, base)
		var seen []int64
		p := base
		item := fmt.Sprintf("data=%v walk size=%d forward=%v %s", items, size, forward, base.query())
		for step := 0; step <= len(items)+2; step++ {
			if forward {
				p.first = i64(int64(size))
			} else {
				p.last = i64(int64(size))
			}
			pg, err := exec(schema, p)
			if err != nil {
				violation("walk-error/"+class, item, "step %d failed: %v", step, err)
				return
			}
			if forward {
				seen = append(seen, pg.ids...)
				if !pg.hasNext {
					break
				}
				p.after = str(pg.end)
			} else {
				seen = append(append([]int64{}, pg.ids...), seen...)
				if !pg.hasPrev {
					break
				}
				p.before = str(pg.start)
			}
			if len(pg.ids) == 0 {
				violation("walk-stuck/"+class, item, "empty page with has%sPage=true", map[bool]string{true: "Next", false: "Prev"}[forward])
				return
			}
		}
		if !eqIDs(seen, ref) {
			violation("walk-partition/"+class, item, "walk visited %v, want exactly %v", seen, ref)
		}
	}
	for _, items := range append(append([][]PItem{}, dataSets...), longList()) {
		n := len(items)
		if tier != "thorough" && n > 4 {
			// quick keeps both 5-element lists for walks only
		}
		for fi, f := range filters {
			for si, s := range sorts {
				base := params{filterText: f.text, filterField: f.field, sortBy: s.by, desc: s.desc}
				class := fmt.Sprintf("filter=%s/sort=%s", f.field, s.by)
				for size := 1; size <= n+1; size++ {
					if n > 5 && size != 3 && size != 7 && size != n {
						continue
					}
					walk(items, base, size, true, class)
					walk(items, base, size, false, class)
				}
				if n > 5 {
					continue
				}
				// single pages: every cursor pair x first/last, for the plain variants (cursor logic does not depend on the implementation of filter/sort)
				if !(fi <= 3 && si <= 4) && tier != "thorough" {
					continue
				}
				var cur []*string
				cur = append(cur, nil, str("bm9wZQ=="))
				for _, it := range items {
					cur = append(cur, str(cursorOf(it.Id)))
				}
				for _, a := range cur {
					for _, b := range cur {
						for lim := -1; lim <= n+1; lim++ {
							p := base
							p.after, p.before = a, b
							if lim >= 0 {
								p.first = i64(int64(lim))
							}
							checkPage(items, p, class+"/first")
							if lim >= 0 {
								p.first, p.last = nil, i64(int64(lim))
								checkPage(items, p, class+"/last")
							}
						}
					}
				}
			}
		}
	}
	// string keys, one of them empty (its cursor is the empty string)
	sschema := buildSchemaKeyed("skey")
	for _, items := range [][]PItem{
		{{1, "apple", 1, "x", "b"}, {2, "apricot", 2, "y", ""}, {3, "plum", 2, "z", "c"}, {4, "pear", 1, "x", "d"}, {5, "fig", 3, "y", "e"}},
		{{1, "apple", 1, "x", ""}, {2, "apricot", 2, "y", "k"}},
		{{1, "apple", 1, "x", "k"}, {2, "apricot", 2, "y", "m"}, {3, "plum", 3, "z", ""}},
	} {
		strKeys = map[int64]string{}
		for _, it := range items {
			strKeys[it.Id] = it.Skey
		}
		saved := schema
		schema = sschema
		n := len(items)
		for _, base := range []params{{}, {sortBy: "num", desc: true}, {filterText: "ap"}} {
			class := fmt.Sprintf("string-keys/filter=%s/sort=%s", base.filterText, base.sortBy)
			for size := 1; size <= n+1; size++ {
				walk(items, base, size, true, class)
				walk(items, base, size, false, class)
			}
			var cur []*string
			cur = append(cur, nil)
			for _, it := range items {
				cur = append(cur, str(cursorOf(it.Id)))
			}
			for _, a := range cur {
				for _, b := range cur {
					for lim := -1; lim <= n; lim++ {
						p := base
						p.after, p.before = a, b
						if lim >= 0 {
							p.first = i64(int64(lim))
						}
						checkPage(items, p, class+"/first")
						if lim >= 0 {
							p.first, p.last = nil, i64(int64(lim))
							checkPage(items, p, class+"/last")
						}
					}
				}
			}
		}
		schema = saved
		strKeys = nil
	}
	rp.AddOutcome(fmt.Sprintf("datasets=%d filters=%d sorts=%d", len(dataSets), len(filters), len(sorts)))
}

func init() {
	reg.Register(&reg.Harness{Property: "C11", Name: "c11/pagination", Level: "exploration", Run: run,
		Rule: "6 lists (n<=5, unordered unique keys, sort ties, mixed-case texts) and 3 string-keyed lists in which one key is the empty string x filter {none, hit, miss, second field} x filter implementation {plain, expensive, batch, batch+fallback on/off} x combinations of two or three filter fields of different implementations over two columns (elements matching through only one of them) x sort {none, int asc/desc, string asc/desc} x sort implementation (same five); forward and backward walks for every page size 1..n+1 must visit exactly the reference list (filter + stable sort) once, in order; single pages for every (after, before) in (cursors + unknown + absent)^2 x first/last in {absent,0..n+1}: totalCount, page content, hasNextPage/hasPrevPage per the property's wording, start/end and edge cursors"})
}
