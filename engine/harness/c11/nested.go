package c11

import (
	"context"
	"fmt"
	"strings"

	"github.com/samsarahq/thunder/graphql"
	"github.com/samsarahq/thunder/graphql/schemabuilder"
	"verif/explore"
	"verif/fix/gqlfix"
	"verif/harness/reg"
	"vrt/rt"
)

// One paginated selection resolved for several lists: under a list of parent objects (lists of different lengths,
// shorter ones first, an empty one in between), and one prepared query executed again after the list changed. The
// arguments of a selection are parsed once per prepared query; every resolution must page its own list.

type Shelf struct {
	Id    int64
	Items []PItem
}

var shelves []*Shelf

func buildNestedSchema() *graphql.Schema {
	s := schemabuilder.NewSchema()
	s.Query().FieldFunc("shelves", func() []*Shelf { return shelves })
	sh := s.Object("Shelf", Shelf{})
	sh.Key("id")
	sh.FieldFunc("page", func(sh *Shelf) []PItem { return sh.Items },
		schemabuilder.Paginated,
		schemabuilder.FilterField("t", func(i PItem) string { return i.Txt }),
		schemabuilder.SortField("num", func(ctx context.Context, i PItem) int64 { return i.Num }))
	s.Query().FieldFunc("list", func() []PItem { return current },
		schemabuilder.Paginated,
		schemabuilder.FilterField("t", func(i PItem) string { return i.Txt }),
		schemabuilder.SortField("num", func(ctx context.Context, i PItem) int64 { return i.Num }))
	s.Object("PItem", PItem{}).Key("id")
	s.Mutation().FieldFunc("noop", func() bool { return true })
	return s.MustBuild()
}

func pageOf(l map[string]interface{}) (pg page) {
	pg.total = int64(l["totalCount"].(float64))
	if es, ok := l["edges"].([]interface{}); ok {
		for _, e := range es {
			em := e.(map[string]interface{})
			pg.cursors = append(pg.cursors, em["cursor"].(string))
			pg.ids = append(pg.ids, int64(em["node"].(map[string]interface{})["id"].(float64)))
		}
	}
	pi := l["pageInfo"].(map[string]interface{})
	pg.hasNext, pg.hasPrev = pi["hasNextPage"].(bool), pi["hasPrevPage"].(bool)
	pg.start, pg.end = pi["startCursor"].(string), pi["endCursor"].(string)
	return
}

func samePage(got, want page) string {
	switch {
	case got.total != want.total:
		return fmt.Sprintf("totalCount=%d, want %d", got.total, want.total)
	case !eqIDs(got.ids, want.ids):
		return fmt.Sprintf("page ids %v, want %v", got.ids, want.ids)
	case got.hasNext != want.hasNext || got.hasPrev != want.hasPrev:
		return fmt.Sprintf("hasNextPage/hasPrevPage=%v/%v, want %v/%v (page %v)", got.hasNext, got.hasPrev, want.hasNext, want.hasPrev, got.ids)
	case got.start != want.start || got.end != want.end:
		return fmt.Sprintf("start/end cursors %q/%q, want %q/%q", got.start, got.end, want.start, want.end)
	}
	return ""
}

func runNested(rp *explore.Report, tier string) {
	schema := buildNestedSchema()
	mk := func(ids ...int64) []PItem {
		var out []PItem
		for _, id := range ids {
			out = append(out, PItem{Id: id, Txt: []string{"apple", "apricot", "plum"}[id%3], Num: (id * 7) % 5})
		}
		return out
	}
	layouts := [][][]PItem{
		{mk(1), mk(), mk(2, 3, 4, 5, 6, 7), mk(8, 9, 10)},
		{mk(1, 2, 3, 4, 5, 6), mk(7, 8), mk(), mk(9, 10, 11, 12)},
		{mk(), mk(1, 2, 3, 4)},
	}
	var ps []params
	for _, n := range []int64{0, 1, 2, 3, 5, 9} {
		for _, ft := range []string{"", "ap"} {
			for _, sb := range []string{"", "num"} {
				ps = append(ps, params{first: i64(n), filterText: ft, sortBy: sb}, params{last: i64(n), filterText: ft, sortBy: sb, desc: sb != ""})
			}
		}
	}
	violation := func(sig, item, format string, a ...interface{}) {
		rp.AddViolation(&explore.Violation{Item: item, Signature: "c11/nested/" + sig, Stable: true,
			Failures: []explore.Failure{{Clause: strings.SplitN(sig, "/", 2)[0], Msg: fmt.Sprintf(format, a...)}}})
	}
	var k int64
	for li, lay := range layouts {
		for _, p := range ps {
			k++
			if !rp.Mine(k) {
				continue
			}
			rp.Cases++
			rp.Nontrivial++
			shelves = nil
			for i, items := range lay {
				shelves = append(shelves, &Shelf{Id: int64(i + 1), Items: items})
			}
			text := strings.Replace(p.query(), "{ list", "{ shelves { id page", 1) + " }"
			item := fmt.Sprintf("layout=%d %s", li, text)
			var res interface{}
			var err error
			rt.RunDefault(func() { res, err = gqlfix.Exec(context.Background(), schema, gqlfix.FIFO{}, text, nil) })
			if err != nil {
				violation("page-error/parents", item, "query failed: %v", err)
				continue
			}
			for i, sh := range res.(map[string]interface{})["shelves"].([]interface{}) {
				want, _ := refPage(refList(lay[i], p), p)
				if msg := samePage(pageOf(sh.(map[string]interface{})["page"].(map[string]interface{})), want); msg != "" {
					violation("page-per-parent", item, "parent %d (list of %d): %s", i+1, len(lay[i]), msg)
				}
			}
		}
	}
	// one prepared query, executed for a short list and again for a longer one (as a live query re-runs)
	for _, p := range ps {
		for _, seq := range [][2][]PItem{{mk(1), mk(1, 2, 3, 4, 5, 6)}, {mk(), mk(1, 2, 3)}, {mk(1, 2, 3, 4, 5, 6), mk(1, 2)}} {
			k++
			if !rp.Mine(k) {
				continue
			}
			rp.Cases++
			rp.Nontrivial++
			item := fmt.Sprintf("prepared once, run twice: %s lists of %d then %d", p.query(), len(seq[0]), len(seq[1]))
			q, err := graphql.Parse(p.query(), nil)
			if err == nil {
				err = graphql.PrepareQuery(context.Background(), schema.Query, q.SelectionSet)
			}
			if err != nil {
				violation("page-error/rerun", item, "prepare failed: %v", err)
				continue
			}
			for run, items := range seq {
				current = items
				var res interface{}
				rt.RunDefault(func() {
					res, err = graphql.NewExecutor(gqlfix.FIFO{}).Execute(context.Background(), schema.Query, nil, q)
				})
				if err != nil {
					violation("page-error/rerun", item, "run %d failed: %v", run+1, err)
					break
				}
				n, _ := gqlfix.Norm(res)
				want, _ := refPage(refList(items, p), p)
				if msg := samePage(pageOf(n.(map[string]interface{})["list"].(map[string]interface{})), want); msg != "" {
					violation("page-per-run", item, "run %d (list of %d): %s", run+1, len(items), msg)
				}
			}
		}
	}
	rp.AddOutcome(fmt.Sprintf("nested-params=%d", len(ps)))
}

func init() {
	reg.Register(&reg.Harness{Property: "C11", Name: "c11/one-selection-many-lists", Level: "exploration", Run: runNested,
		Rule: "one paginated selection resolved for several lists: under 2-4 parent objects whose lists have different lengths (shorter first, an empty one in between) and as one prepared query executed for one list and again for another; first/last in {0,1,2,3,5,9} x filter x sort; oracle: every parent's / every run's page (totalCount, ids, hasNext/hasPrev, cursors) equals the reference page of its own list"})
}
