// Package c12: a shard-limited DB handle can never read or write outside its shard.
package c12

import (
	"context"
	"database/sql/driver"
	"fmt"
	"strings"

	"github.com/samsarahq/thunder/batch"
	"github.com/samsarahq/thunder/sqlgen"
	"verif/explore"
	"verif/fix/fakesql"
	"verif/harness/reg"
	"vrt/rt"
)

type Acct struct {
	Id     int64 `sql:",primary"`
	OrgId  int64
	Region string
	Name   string
	Opt    *int64
}

// Memb has the limit column inside its primary key (so UpdateRow/DeleteRow can comply).
type Memb struct {
	OrgId int64 `sql:",primary"`
	Id    int64 `sql:",primary"`
	Role  string
}

type Evt struct {
	Id    int64 `sql:",primary"`
	OrgId int64
	Msg   string
}

type limitCfg struct {
	name     string
	shard    sqlgen.Filter
	dynamic  sqlgen.Filter
	all      map[string]driver.Value // column -> value every statement must be confined to
	dynFirst bool                    // the dynamic limit is put on the handle before the shard limit
	soft     bool                    // the dynamic limit's callback lets violations pass (log-only); the shard limit stays hard
}

func limits() []limitCfg {
	return []limitCfg{
		{"shard(org)", sqlgen.Filter{"org_id": int64(1)}, nil, map[string]driver.Value{"org_id": int64(1)}, false, false},
		{"shard(org,region)", sqlgen.Filter{"org_id": int64(1), "region": "us"}, nil, map[string]driver.Value{"org_id": int64(1), "region": "us"}, false, false},
		{"dynamic(org)", nil, sqlgen.Filter{"org_id": int64(1)}, map[string]driver.Value{"org_id": int64(1)}, false, false},
		{"shard(org)+dynamic(region)", sqlgen.Filter{"org_id": int64(1)}, sqlgen.Filter{"region": "us"}, map[string]driver.Value{"org_id": int64(1), "region": "us"}, false, false},
		{"dynamic(region)+shard(org)", sqlgen.Filter{"org_id": int64(1)}, sqlgen.Filter{"region": "us"}, map[string]driver.Value{"org_id": int64(1), "region": "us"}, true, false},
		{"dynamic(org)+shard(region)", sqlgen.Filter{"region": "us"}, sqlgen.Filter{"org_id": int64(1)}, map[string]driver.Value{"org_id": int64(1), "region": "us"}, true, false},
		// a log-only dynamic limit (its callback says "continue") next to a shard limit: only the shard limit confines
		{"shard(org)+soft-dynamic(region)", sqlgen.Filter{"org_id": int64(1)}, sqlgen.Filter{"region": "us"}, map[string]driver.Value{"org_id": int64(1)}, false, true},
		{"soft-dynamic(region)+shard(org)", sqlgen.Filter{"org_id": int64(1)}, sqlgen.Filter{"region": "us"}, map[string]driver.Value{"org_id": int64(1)}, true, true},
	}
}

type env struct {
	fdb    *fakesql.DB
	schema *sqlgen.Schema
	db     *sqlgen.DB // limited handle
	lim    limitCfg
}

func newEnv(lim limitCfg) *env {
	schema := sqlgen.NewSchema()
	schema.MustRegisterType("accts", sqlgen.UniqueId, Acct{})
	schema.MustRegisterType("membs", sqlgen.UniqueId, Memb{})
	schema.MustRegisterType("evts", sqlgen.AutoIncrement, Evt{})
	fdb := fakesql.New()
	for _, t := range schema.ByName {
		fdb.AddTable(t)
	}
	one := int64(1)
	fdb.Tables["accts"].Rows = [][]driver.Value{
		{int64(1), int64(1), "us", "a", nil}, {int64(2), int64(1), "eu", "b", one}, {int64(3), int64(2), "us", "a", nil}, {int64(4), int64(2), "eu", "c", one},
	}
	fdb.Tables["membs"].Rows = [][]driver.Value{{int64(1), int64(1), "admin"}, {int64(2), int64(1), "admin"}, {int64(1), int64(2), "user"}}
	fdb.Tables["evts"].Rows = [][]driver.Value{{int64(1), int64(1), "x"}, {int64(2), int64(2), "y"}}
	db := sqlgen.NewDB(fdb.Open(), schema)
	var err error
	if lim.shard != nil && !lim.dynFirst {
		if db, err = db.WithShardLimit(lim.shard); err != nil {
			panic(err)
		}
	}
	if lim.dynamic != nil {
		dyn := lim.dynamic
		db, err = db.WithDynamicLimit(sqlgen.DynamicLimit{
			GetLimitFilter:        func(ctx context.Context, table string) sqlgen.Filter { return dyn },
			ShouldContinueOnError: func(err error, table string) bool { return lim.soft },
		})
		if err != nil {
			panic(err)
		}
	}
	if lim.shard != nil && lim.dynFirst {
		if db, err = db.WithShardLimit(lim.shard); err != nil {
			panic(err)
		}
	}
	return &env{fdb: fdb, schema: schema, db: db, lim: lim}
}

// op is one call on the limited handle.
type op struct {
	name     string
	table    string
	complies func(lim map[string]driver.Value) bool // does the call, as written, stay inside the shard?
	multi    bool                                   // may legitimately issue complying statements before failing
	run      func(ctx context.Context, e *env) error
}

func hasAll(lim map[string]driver.Value, vals map[string]driver.Value) bool {
	for c, v := range lim {
		x, ok := vals[c]
		if !ok || x == nil || !fakesql.Eq(x, v) {
			return false
		}
	}
	return true
}

func filterVals(f sqlgen.Filter) map[string]driver.Value {
	out := map[string]driver.Value{}
	for k, v := range f {
		switch x := v.(type) {
		case int:
			out[k] = int64(x)
		case int32:
			out[k] = int64(x)
		case *int64:
			if x != nil {
				out[k] = *x
			} else {
				out[k] = nil
			}
		default:
			out[k] = v
		}
	}
	return out
}

func ops() []op {
	var out []op
	one := int64(1)
	filters := []struct {
		name string
		f    sqlgen.Filter
	}{
		{"{org:1}", sqlgen.Filter{"org_id": int64(1)}},
		{"{org:1,region:us}", sqlgen.Filter{"org_id": int64(1), "region": "us"}},
		{"{org:1,region:eu}", sqlgen.Filter{"org_id": int64(1), "region": "eu"}},
		{"{org:2}", sqlgen.Filter{"org_id": int64(2)}},
		{"{org:2,region:us}", sqlgen.Filter{"org_id": int64(2), "region": "us"}},
		{"{}", sqlgen.Filter{}},
		{"nil", nil},
		{"{name:a}", sqlgen.Filter{"name": "a"}},
		{"{region:us}", sqlgen.Filter{"region": "us"}},
		{"{org:int(1),region:us}", sqlgen.Filter{"org_id": int(1), "region": "us"}},
		{"{org:&1,region:us}", sqlgen.Filter{"org_id": &one, "region": "us"}},
		{"{org:1,region:us,name:a}", sqlgen.Filter{"org_id": int64(1), "region": "us", "name": "a"}},
		{"{org:1,region:us,opt:nil}", sqlgen.Filter{"org_id": int64(1), "region": "us", "opt": nil}},
		{"{org:2,region:us,name:a}", sqlgen.Filter{"org_id": int64(2), "region": "us", "name": "a"}},
		{"{org:1,region:eu,name:b,opt:&1}", sqlgen.Filter{"org_id": int64(1), "region": "eu", "name": "b", "opt": &one}},
		{"{org:2,region:eu,name:c,opt:&1}", sqlgen.Filter{"org_id": int64(2), "region": "eu", "name": "c", "opt": &one}},
		{"{id:3}", sqlgen.Filter{"id": int64(3)}},
	}
	opts := []struct {
		name string
		o    func() *sqlgen.SelectOptions
	}{
		{"", func() *sqlgen.SelectOptions { return nil }},
		{"+where", func() *sqlgen.SelectOptions {
			return &sqlgen.SelectOptions{Where: "name = ?", Values: []interface{}{"a"}}
		}},
		{"+limit", func() *sqlgen.SelectOptions { return &sqlgen.SelectOptions{OrderBy: "id", Limit: 1} }},
		{"+or-where", func() *sqlgen.SelectOptions {
			return &sqlgen.SelectOptions{Where: "name = ? OR name = ?", Values: []interface{}{"a", "c"}}
		}},
	}
	for _, fl := range filters {
		fl := fl
		comp := func(lim map[string]driver.Value) bool { return hasAll(lim, filterVals(fl.f)) }
		for _, o := range opts {
			o := o
			out = append(out, op{name: "Query" + o.name + fl.name, table: "accts", complies: comp, run: func(ctx context.Context, e *env) error {
				var rows []*Acct
				return e.db.Query(ctx, &rows, fl.f, o.o())
			}})
			out = append(out, op{name: "QueryRow" + o.name + fl.name, table: "accts", complies: comp, run: func(ctx context.Context, e *env) error {
				var row *Acct
				err := e.db.QueryRow(ctx, &row, fl.f, o.o())
				if err != nil && (strings.Contains(err.Error(), "no rows") || strings.Contains(err.Error(), "no more than 1")) {
					return nil
				}
				return err
			}})
		}
		out = append(out, op{name: "FullScanQuery" + fl.name, table: "accts", complies: comp, run: func(ctx context.Context, e *env) error {
			var rows []*Acct
			return e.db.FullScanQuery(ctx, &rows, fl.f, nil)
		}})
		out = append(out, op{name: "Count" + fl.name, table: "accts", complies: comp, run: func(ctx context.Context, e *env) error {
			_, err := e.db.Count(ctx, &Acct{}, fl.f)
			return err
		}})
	}
	// one *SelectOptions value used for two calls with different filters (a rejected call followed by a retry, options
	// first used for another shard): the second call is judged, every statement of both must be confined
	for _, pr := range [][2]int{{3, 0}, {4, 1}, {0, 3}, {1, 4}, {4, 9}, {13, 11}, {5, 1}, {1, 2}} {
		fa, fb := filters[pr[0]], filters[pr[1]]
		comp := func(lim map[string]driver.Value) bool { return hasAll(lim, filterVals(fb.f)) }
		for _, o := range opts[1:] {
			o := o
			out = append(out, op{name: "Query(options reused after " + fa.name + ")" + o.name + fb.name, table: "accts", complies: comp, multi: true, run: func(ctx context.Context, e *env) error {
				shared := o.o()
				var first, rows []*Acct
				e.db.Query(ctx, &first, fa.f, shared)
				return e.db.Query(ctx, &rows, fb.f, shared)
			}})
		}
		out = append(out, op{name: "QueryRow(options reused after " + fa.name + ")" + fb.name, table: "accts", complies: comp, multi: true, run: func(ctx context.Context, e *env) error {
			shared := &sqlgen.SelectOptions{}
			var first, row *Acct
			e.db.QueryRow(ctx, &first, fa.f, shared)
			err := e.db.QueryRow(ctx, &row, fb.f, shared)
			if err != nil && (strings.Contains(err.Error(), "no rows") || strings.Contains(err.Error(), "no more than 1")) {
				return nil
			}
			return err
		}})
	}
	accts := []*Acct{{10, 1, "us", "n", nil}, {11, 1, "eu", "n", &one}, {12, 2, "us", "n", nil}, {13, 2, "eu", "n", nil}, {1, 1, "us", "changed", nil}, {3, 2, "us", "changed", nil}}
	rowVals := func(a *Acct) map[string]driver.Value {
		return map[string]driver.Value{"id": a.Id, "org_id": a.OrgId, "region": a.Region, "name": a.Name}
	}
	for _, a := range accts {
		a := a
		comp := func(lim map[string]driver.Value) bool { return hasAll(lim, rowVals(a)) }
		tag := fmt.Sprintf("{%d,org:%d,%s}", a.Id, a.OrgId, a.Region)
		out = append(out, op{name: "InsertRow" + tag, table: "accts", complies: comp, run: func(ctx context.Context, e *env) error {
			_, err := e.db.InsertRow(ctx, a)
			return err
		}})
		out = append(out, op{name: "UpsertRow" + tag, table: "accts", complies: comp, run: func(ctx context.Context, e *env) error {
			_, err := e.db.UpsertRow(ctx, a)
			return err
		}})
		out = append(out, op{name: "UpdateRow" + tag, table: "accts", complies: comp, run: func(ctx context.Context, e *env) error { return e.db.UpdateRow(ctx, a) }})
		// DeleteRow on accts names only the primary key: it can never show the limit columns
		out = append(out, op{name: "DeleteRow" + tag, table: "accts", complies: func(map[string]driver.Value) bool { return false }, run: func(ctx context.Context, e *env) error { return e.db.DeleteRow(ctx, a) }})
	}
	for _, pair := range [][2]int{{0, 1}, {0, 2}, {2, 0}, {0, 0}, {1, 3}} {
		rows := []*Acct{accts[pair[0]], accts[pair[1]]}
		if pair[0] == pair[1] {
			cp := *rows[1]
			cp.Id = 20
			rows[1] = &cp
		}
		comp := func(lim map[string]driver.Value) bool {
			return hasAll(lim, rowVals(rows[0])) && hasAll(lim, rowVals(rows[1]))
		}
		for _, chunk := range []int{1, 2} {
			chunk := chunk
			tag := fmt.Sprintf("[%d,%d]/chunk%d", pair[0], pair[1], chunk)
			out = append(out, op{name: "InsertRows" + tag, table: "accts", complies: comp, multi: true, run: func(ctx context.Context, e *env) error { return e.db.InsertRows(ctx, rows, chunk) }})
			out = append(out, op{name: "UpsertRows" + tag, table: "accts", complies: comp, multi: true, run: func(ctx context.Context, e *env) error { return e.db.UpsertRows(ctx, rows, chunk) }})
		}
	}
	for _, m := range []*Memb{{1, 1, "x"}, {2, 1, "x"}, {1, 9, "x"}} {
		m := m
		comp := func(lim map[string]driver.Value) bool {
			return hasAll(lim, map[string]driver.Value{"org_id": m.OrgId, "id": m.Id})
		}
		tag := fmt.Sprintf("{org:%d,%d}", m.OrgId, m.Id)
		out = append(out, op{name: "Memb.UpdateRow" + tag, table: "membs", complies: comp, run: func(ctx context.Context, e *env) error { return e.db.UpdateRow(ctx, m) }})
		out = append(out, op{name: "Memb.DeleteRow" + tag, table: "membs", complies: comp, run: func(ctx context.Context, e *env) error { return e.db.DeleteRow(ctx, m) }})
		out = append(out, op{name: "Memb.UpsertRow" + tag, table: "membs", complies: comp, run: func(ctx context.Context, e *env) error { _, err := e.db.UpsertRow(ctx, m); return err }})
		out = append(out, op{name: "Memb.Query" + tag, table: "membs", complies: comp, run: func(ctx context.Context, e *env) error {
			var rows []*Memb
			return e.db.Query(ctx, &rows, sqlgen.Filter{"org_id": m.OrgId, "id": m.Id}, nil)
		}})
	}
	for _, ev := range []*Evt{{0, 1, "m"}, {0, 2, "m"}} {
		ev := ev
		comp := func(lim map[string]driver.Value) bool {
			return hasAll(lim, map[string]driver.Value{"org_id": ev.OrgId})
		}
		out = append(out, op{name: fmt.Sprintf("Evt.InsertRow{org:%d}", ev.OrgId), table: "evts", complies: comp, run: func(ctx context.Context, e *env) error {
			cp := *ev
			_, err := e.db.InsertRow(ctx, &cp)
			return err
		}})
	}
	return out
}

// confined checks one logged statement against the limit.
func confined(st fakesql.Stmt, lim map[string]driver.Value) (bool, string) {
	ps, err := fakesql.Parse(st.SQL, st.Args)
	if err != nil {
		return false, "unparseable statement: " + err.Error()
	}
	inConds := func(cs []fakesql.Cond, col string, v driver.Value) bool {
		for _, c := range cs {
			if c.Col == col && c.Val != nil && fakesql.Eq(c.Val, v) {
				return true
			}
		}
		return false
	}
	switch ps.Kind {
	case "SELECT", "COUNT", "DELETE", "UPDATE":
		if ps.Where == nil {
			return false, "no WHERE clause"
		}
		for _, dj := range fakesql.Disjuncts(ps.Where) {
			for col, v := range lim {
				ok := inConds(dj, col, v)
				if !ok && ps.Kind == "UPDATE" { // "carries those column values": WHERE or SET
					for i, c := range ps.Cols {
						if c == col && ps.Rows[0][i] != nil && fakesql.Eq(ps.Rows[0][i], v) {
							ok = true
						}
					}
				}
				if !ok {
					return false, fmt.Sprintf("a disjunct of the WHERE clause does not restrict %s to %v", col, v)
				}
			}
		}
	case "INSERT", "UPSERT":
		for _, row := range ps.Rows {
			for col, v := range lim {
				ok := false
				for i, c := range ps.Cols {
					if c == col && row[i] != nil && fakesql.Eq(row[i], v) {
						ok = true
					}
				}
				if !ok {
					return false, fmt.Sprintf("a row does not carry %s = %v", col, v)
				}
			}
		}
	default:
		return false, "unexpected statement kind " + ps.Kind
	}
	return true, ""
}

type ctxMode int

const (
	plain ctxMode = iota
	inTx
	batched
)

var ctxNames = []string{"plain", "tx", "batched"}

func run(rp *explore.Report, tier string) {
	all := ops()
	var k int64
	fail := func(clause, class, item, format string, a ...interface{}) {
		rp.AddViolation(&explore.Violation{Item: item, Signature: "c12/" + clause + "/" + class, Stable: true,
			Failures: []explore.Failure{{Clause: clause, Msg: fmt.Sprintf(format, a...)}}})
	}
	check := func(lim limitCfg, mode ctxMode, seq []int) {
		k++
		if !rp.Mine(k) {
			return
		}
		rp.Cases++
		e := newEnv(lim)
		defer e.fdb.Close()
		var names []string
		for _, i := range seq {
			names = append(names, all[i].name)
		}
		item := fmt.Sprintf("limit=%s ctx=%s ops=%s", lim.name, ctxNames[mode], strings.Join(names, " ; "))
		errs := make([]error, len(seq))
		logAt := make([][2]int, len(seq))
		exec := func(ctx context.Context) {
			for n, i := range seq {
				logAt[n][0] = len(e.fdb.Log)
				func() {
					defer func() {
						if p := recover(); p != nil {
							errs[n] = fmt.Errorf("panic: %v", p)
						}
					}()
					errs[n] = all[i].run(ctx, e)
				}()
				logAt[n][1] = len(e.fdb.Log)
			}
		}
		switch mode {
		case plain:
			exec(context.Background())
		case inTx:
			ctx, tx, err := e.db.WithTx(context.Background())
			if err != nil {
				panic(err)
			}
			exec(ctx)
			tx.Commit()
		case batched:
			// the operations run as concurrent goroutines sharing one batching context
			rt.RunDefault(func() {
				ctx := batch.WithBatching(context.Background())
				for n, i := range seq {
					n, i := n, i
					rt.Go(func() {
						defer func() {
							if p := recover(); p != nil {
								errs[n] = fmt.Errorf("panic: %v", p)
							}
						}()
						errs[n] = all[i].run(ctx, e)
					})
				}
				rt.Quiesce()
			})
		}
		// every statement that reached the database must be confined to the shard
		for _, st := range e.fdb.Log {
			if ok, why := confined(st, lim.all); !ok {
				fail("statement-confined", lim.name+"/"+ctxNames[mode], item, "statement %q args=%v reached the database: %s", st.SQL, st.Args, why)
			}
		}
		nonTrivial := false
		for n, i := range seq {
			o := all[i]
			if o.complies(lim.all) {
				if errs[n] == nil {
					nonTrivial = true
				}
				continue
			}
			nonTrivial = true
			if errs[n] == nil {
				fail("noncomplying-rejected", lim.name+"/"+ctxNames[mode]+"/"+strings.SplitN(o.name, "{", 2)[0], item, "%s does not comply with the limit but returned no error", o.name)
			} else if strings.HasPrefix(errs[n].Error(), "panic:") {
				fail("noncomplying-rejected", lim.name+"/panic", item, "%s panicked: %v", o.name, errs[n])
			}
			if mode != batched && !o.multi && logAt[n][1] != logAt[n][0] {
				fail("no-statement-on-reject", lim.name+"/"+ctxNames[mode], item, "%s does not comply but %d statement(s) reached the database", o.name, logAt[n][1]-logAt[n][0])
			}
		}
		if nonTrivial {
			rp.Nontrivial++
		}
		if rp.Cases%701 == 1 {
			var stmts []string
			for _, st := range e.fdb.Log {
				stmts = append(stmts, fmt.Sprintf("%s %v", st.SQL, st.Args))
			}
			rp.AddSample(map[string]interface{}{"case": item, "statements": stmts, "errors": fmt.Sprint(errs)})
		}
	}
	for _, lim := range limits() {
		for mode := plain; mode <= batched; mode++ {
			for i := range all {
				check(lim, mode, []int{i})
			}
		}
		// pairs of operations on one handle: queries batched together, and (thorough) all ordered pairs in sequence
		var queries []int
		for i, o := range all {
			if strings.HasPrefix(o.name, "Query{") || strings.HasPrefix(o.name, "QueryRow{") || strings.HasPrefix(o.name, "Memb.Query") {
				queries = append(queries, i)
			}
		}
		for _, a := range queries {
			for _, b := range queries {
				check(lim, batched, []int{a, b})
			}
		}
		if tier == "thorough" {
			for a := range all {
				for b := range all {
					check(lim, plain, []int{a, b})
					if a%3 == 0 {
						check(lim, inTx, []int{a, b})
					}
				}
			}
		}
	}
	rp.AddOutcome(fmt.Sprintf("ops=%d", len(all)))
}

func init() {
	reg.Register(&reg.Harness{Property: "C12", Name: "c12/shardlimit", Level: "exploration", Run: run,
		Rule: "limits {one column, two columns, dynamic limit whose callback rejects, shard+dynamic} x every operation (Query, QueryRow, FullScanQuery, Count with 13 filters x 4 option shapes; InsertRow(s), UpsertRow(s) with chunking, UpdateRow, DeleteRow over three tables incl. a composite key and an auto-increment key) x context {plain, inside WithTx, concurrent under one batching context} and all pairs of batched queries (thorough: all ordered operation pairs); every statement logged by the in-memory driver is parsed and must be confined to the shard (each WHERE disjunct / each row carries every limit column value); every non-complying call must return an error and, for single-statement calls, issue no statement. non-trivial = cases containing a non-complying call or a successful complying one"})
}
