// Package c13: row codec round trip — structs survive conversion to and from SQL values.
package c13

import (
	"database/sql/driver"
	"fmt"
	"math"
	"reflect"
	"strconv"
	"strings"
	"time"

	"github.com/gogo/protobuf/proto"
	"github.com/samsarahq/thunder/livesql"
	"github.com/samsarahq/thunder/sqlgen"
	"github.com/samsarahq/thunder/thunderpb"
	"verif/explore"
	"verif/fix/fakesql"
	"verif/harness/reg"
)

type NamedInt int32
type NamedStr string
type NamedBool bool
type NamedF float64

// TextT is stored through MarshalText / UnmarshalText (sql:",string").
type TextT struct{ A, B int }

func (t TextT) MarshalText() ([]byte, error) { return []byte(fmt.Sprintf("%d:%d", t.A, t.B)), nil }
func (t *TextT) UnmarshalText(b []byte) error {
	_, err := fmt.Sscanf(string(b), "%d:%d", &t.A, &t.B)
	return err
}

// BinT is stored through MarshalBinary / UnmarshalBinary (sql:",binary").
type BinT struct{ X []byte }

func (b BinT) MarshalBinary() ([]byte, error) { return append([]byte{0x7f}, b.X...), nil }
func (b *BinT) UnmarshalBinary(d []byte) error {
	if len(d) == 0 || d[0] != 0x7f {
		return fmt.Errorf("bad BinT")
	}
	b.X = append([]byte{}, d[1:]...)
	return nil
}

type JT struct {
	N int      `json:"n"`
	S []string `json:"s,omitempty"`
}

type Row[T any] struct {
	Id int64 `sql:",primary"`
	V  T
}
type RowStr[T any] struct {
	Id int64 `sql:",primary"`
	V  T     `sql:",string"`
}
type RowBin[T any] struct {
	Id int64 `sql:",primary"`
	V  T     `sql:",binary"`
}
type RowJSON[T any] struct {
	Id int64 `sql:",primary"`
	V  T     `sql:",json"`
}
type RowINull[T any] struct {
	Id int64 `sql:",primary"`
	V  T     `sql:",implicitnull"`
}

// Wide has many columns at once (column order / index mapping).
type Wide struct {
	A  int8
	Id int64 `sql:",primary"`
	B  *string
	C  []byte
	D  time.Time
	E  NamedStr
	F  *float64 `sql:"f_col"`
	G  uint16
	H  string `sql:",implicitnull"`
	x  int
}

type tbl struct {
	name   string
	rows   []interface{} // pointers to struct values
	eq     func(a, b interface{}) bool
	noStr  bool // the string representation of a []byte driver value is not a source this column's own Scan method accepts (a VARBINARY column arrives as a Go string in change-log rows: for thunder's own decoding it is a legal source)
	filter bool // V can be used as a filter value (comparable scalar)
}

// Fussy serialises itself and refuses negative numbers
type Fussy struct{ N int64 }

func (f Fussy) Value() (driver.Value, error) {
	if f.N < 0 {
		return nil, fmt.Errorf("Fussy: %d cannot be stored", f.N)
	}
	return f.N, nil
}

func (f *Fussy) Scan(src interface{}) error {
	switch v := src.(type) {
	case int64:
		f.N = v
	case []byte:
		n, err := strconv.ParseInt(string(v), 10, 64)
		f.N = n
		return err
	default:
		return fmt.Errorf("Fussy: cannot scan %T", src)
	}
	return nil
}

// Status serialises itself; its NULL form is not its zero value (0 = active is stored as 0, unknown = -1 as NULL)
type Status int64

func (s Status) Value() (driver.Value, error) {
	if s == -1 {
		return nil, nil
	}
	return int64(s), nil
}

func (s *Status) Scan(src interface{}) error {
	switch v := src.(type) {
	case nil:
		*s = -1
	case int64:
		*s = Status(v)
	case []byte:
		n, err := strconv.ParseInt(string(v), 10, 64)
		*s = Status(n)
		return err
	default:
		return fmt.Errorf("Status: cannot scan %T", src)
	}
	return nil
}

func eqDefault(a, b interface{}) bool { return deepEq(reflect.ValueOf(a), reflect.ValueOf(b)) }

// deepEq is reflect.DeepEqual with time.Time compared by Equal and proto messages by proto.Equal.
func deepEq(a, b reflect.Value) bool {
	if a.IsValid() != b.IsValid() {
		return false
	}
	if !a.IsValid() {
		return true
	}
	if a.Type() != b.Type() {
		return false
	}
	if a.Type() == reflect.TypeOf(time.Time{}) {
		return a.Interface().(time.Time).Equal(b.Interface().(time.Time))
	}
	if a.CanInterface() {
		if pa, ok := a.Interface().(proto.Message); ok && a.Kind() == reflect.Ptr {
			if a.IsNil() || b.IsNil() {
				return a.IsNil() == b.IsNil()
			}
			return proto.Equal(pa, b.Interface().(proto.Message))
		}
	}
	switch a.Kind() {
	case reflect.Ptr:
		if a.IsNil() || b.IsNil() {
			return a.IsNil() == b.IsNil()
		}
		return deepEq(a.Elem(), b.Elem())
	case reflect.Struct:
		for i := 0; i < a.NumField(); i++ {
			if !deepEq(a.Field(i), b.Field(i)) {
				return false
			}
		}
		return true
	case reflect.Slice:
		if a.IsNil() != b.IsNil() && (a.Len() > 0 || b.Len() > 0) {
			return false
		}
		if a.Len() != b.Len() {
			return false
		}
		for i := 0; i < a.Len(); i++ {
			if !deepEq(a.Index(i), b.Index(i)) {
				return false
			}
		}
		return true
	}
	if a.CanInterface() {
		return reflect.DeepEqual(a.Interface(), b.Interface())
	}
	return true // unexported field
}

func p[T any](v T) *T { return &v }

func mk[T any](vals ...T) []interface{} {
	var out []interface{}
	for i, v := range vals {
		out = append(out, &Row[T]{Id: int64(i + 1), V: v})
	}
	return out
}

var utc = time.UTC

func times() []time.Time {
	return []time.Time{
		time.Date(2020, 1, 2, 3, 4, 5, 0, utc),
		time.Date(1970, 1, 1, 0, 0, 1, 0, utc),
		time.Date(2038, 1, 19, 3, 14, 7, 999999000, utc),
		time.Date(1999, 12, 31, 23, 59, 59, 123456000, utc),
	}
}

func tables(s *sqlgen.Schema) []tbl {
	var ts []tbl
	add := func(name string, sample interface{}, rows []interface{}, t tbl) {
		s.MustRegisterType(name, sqlgen.UniqueId, sample)
		t.name, t.rows = name, rows
		if t.eq == nil {
			t.eq = eqDefault
		}
		ts = append(ts, t)
	}
	add("t_int", Row[int]{}, mk[int](0, 1, -1, math.MaxInt32, math.MinInt64, math.MaxInt64), tbl{filter: true})
	add("t_int8", Row[int8]{}, mk[int8](0, 1, -1, math.MinInt8, math.MaxInt8), tbl{filter: true})
	add("t_int16", Row[int16]{}, mk[int16](0, 1, -1, math.MinInt16, math.MaxInt16), tbl{filter: true})
	add("t_int32", Row[int32]{}, mk[int32](0, 1, -1, math.MinInt32, math.MaxInt32), tbl{filter: true})
	add("t_int64", Row[int64]{}, mk[int64](0, 1, -1, math.MinInt64, math.MaxInt64, 1<<53+1), tbl{filter: true})
	add("t_uint", Row[uint]{}, mk[uint](0, 1, math.MaxUint32, math.MaxInt64, math.MaxUint64), tbl{filter: true})
	add("t_uint8", Row[uint8]{}, mk[uint8](0, 1, 127, 128, 200, math.MaxUint8), tbl{filter: true})
	add("t_uint16", Row[uint16]{}, mk[uint16](0, 1, 32767, 32768, 40000, math.MaxUint16), tbl{filter: true})
	add("t_uint32", Row[uint32]{}, mk[uint32](0, 1, math.MaxInt32, math.MaxInt32+1, math.MaxUint32), tbl{filter: true})
	add("t_uint64", Row[uint64]{}, mk[uint64](0, 1, math.MaxInt64, math.MaxInt64+1, math.MaxUint64), tbl{filter: true})
	add("t_f32", Row[float32]{}, mk[float32](0, 1.5, -2.25, 16777216, math.MaxFloat32, math.SmallestNonzeroFloat32), tbl{filter: true})
	add("t_f64", Row[float64]{}, mk[float64](0, 1.5, -2.25, 0.1, 1e300, math.SmallestNonzeroFloat64, 1<<53+2), tbl{filter: true})
	add("t_bool", Row[bool]{}, mk[bool](false, true), tbl{filter: true})
	add("t_str", Row[string]{}, mk[string]("", "a", "héllo wörld", "0", "true", "nul\x00byte", " spaced "), tbl{filter: true})
	add("t_nint", Row[NamedInt]{}, mk[NamedInt](0, -5, math.MaxInt32), tbl{filter: true})
	add("t_nstr", Row[NamedStr]{}, mk[NamedStr]("", "named"), tbl{filter: true})
	add("t_nbool", Row[NamedBool]{}, mk[NamedBool](false, true), tbl{filter: true})
	add("t_nf", Row[NamedF]{}, mk[NamedF](0, 2.5), tbl{filter: true})
	add("t_bytes", Row[[]byte]{}, mk[[]byte](nil, []byte{}, []byte("abc"), []byte{0, 255, 10}), tbl{})
	add("t_time", Row[time.Time]{}, mk[time.Time](times()...), tbl{filter: true})
	// pointers / NULL
	add("t_pint64", Row[*int64]{}, mk[*int64](nil, p(int64(0)), p(int64(-7)), p(int64(math.MaxInt64))), tbl{filter: true})
	add("t_pint8", Row[*int8]{}, mk[*int8](nil, p(int8(0)), p(int8(-128))), tbl{filter: true})
	add("t_puint8", Row[*uint8]{}, mk[*uint8](nil, p(uint8(0)), p(uint8(255))), tbl{filter: true})
	add("t_pstr", Row[*string]{}, mk[*string](nil, p(""), p("x")), tbl{filter: true})
	add("t_pbool", Row[*bool]{}, mk[*bool](nil, p(false), p(true)), tbl{filter: true})
	add("t_pf64", Row[*float64]{}, mk[*float64](nil, p(0.0), p(-1.25)), tbl{filter: true})
	add("t_ptime", Row[*time.Time]{}, mk[*time.Time](nil, p(times()[0]), p(times()[2])), tbl{filter: true})
	add("t_pnstr", Row[*NamedStr]{}, mk[*NamedStr](nil, p(NamedStr("")), p(NamedStr("q"))), tbl{filter: true})
	// tags
	add("t_text", RowStr[TextT]{}, []interface{}{&RowStr[TextT]{1, TextT{}}, &RowStr[TextT]{2, TextT{3, -4}}}, tbl{})
	add("t_ptext", RowStr[*TextT]{}, []interface{}{&RowStr[*TextT]{1, nil}, &RowStr[*TextT]{2, &TextT{5, 6}}}, tbl{})
	add("t_bin", RowBin[BinT]{}, []interface{}{&RowBin[BinT]{1, BinT{X: []byte{}}}, &RowBin[BinT]{2, BinT{X: []byte{1, 2, 0}}}}, tbl{})
	add("t_pbin", RowBin[*BinT]{}, []interface{}{&RowBin[*BinT]{1, nil}, &RowBin[*BinT]{2, &BinT{X: []byte{9}}}}, tbl{})
	add("t_proto", RowBin[*thunderpb.Field]{}, []interface{}{&RowBin[*thunderpb.Field]{1, nil},
		&RowBin[*thunderpb.Field]{2, &thunderpb.Field{Kind: thunderpb.FieldKind_Int, Value: &thunderpb.Field_Int{Int: -3}}},
		&RowBin[*thunderpb.Field]{3, &thunderpb.Field{Kind: thunderpb.FieldKind_String, Value: &thunderpb.Field_String_{String_: "s"}}}}, tbl{noStr: true})
	add("t_protov", RowBin[thunderpb.Field]{}, []interface{}{&RowBin[thunderpb.Field]{1, thunderpb.Field{Kind: thunderpb.FieldKind_Bool, Value: &thunderpb.Field_Bool{Bool: true}}}}, tbl{noStr: true,
		eq: func(a, b interface{}) bool {
			x, y := a.(*RowBin[thunderpb.Field]), b.(*RowBin[thunderpb.Field])
			return x.Id == y.Id && proto.Equal(&x.V, &y.V)
		}})
	add("t_jmap", RowJSON[map[string]int]{}, []interface{}{&RowJSON[map[string]int]{1, map[string]int{}}, &RowJSON[map[string]int]{2, map[string]int{"a": 1, "b": -2}}}, tbl{})
	add("t_jstruct", RowJSON[JT]{}, []interface{}{&RowJSON[JT]{1, JT{}}, &RowJSON[JT]{2, JT{N: 4, S: []string{"x", ""}}}}, tbl{})
	add("t_jptr", RowJSON[*JT]{}, []interface{}{&RowJSON[*JT]{1, nil}, &RowJSON[*JT]{2, &JT{N: -1}}}, tbl{})
	add("t_jslice", RowJSON[[]string]{}, []interface{}{&RowJSON[[]string]{1, []string{}}, &RowJSON[[]string]{2, []string{"a", "b"}}}, tbl{})
	add("t_inint", RowINull[int64]{}, []interface{}{&RowINull[int64]{1, 0}, &RowINull[int64]{2, 5}, &RowINull[int64]{3, -5}}, tbl{filter: true})
	add("t_instr", RowINull[string]{}, []interface{}{&RowINull[string]{1, ""}, &RowINull[string]{2, "v"}}, tbl{filter: true})
	add("t_inbool", RowINull[bool]{}, []interface{}{&RowINull[bool]{1, false}, &RowINull[bool]{2, true}}, tbl{filter: true})
	add("t_intime", RowINull[time.Time]{}, []interface{}{&RowINull[time.Time]{1, time.Time{}}, &RowINull[time.Time]{2, times()[0]}}, tbl{})
	add("t_fussy", Row[*Fussy]{}, mk[*Fussy](nil, &Fussy{0}, &Fussy{5}), tbl{})
	// a type that serialises itself (driver.Valuer + sql.Scanner) under a json / string / binary tag: its own
	// Value and Scan are used on both sides, the tag does not change the stored form
	add("t_jfussy", RowJSON[Fussy]{}, []interface{}{&RowJSON[Fussy]{1, Fussy{0}}, &RowJSON[Fussy]{2, Fussy{5}}}, tbl{})
	add("t_sfussy", RowStr[Fussy]{}, []interface{}{&RowStr[Fussy]{1, Fussy{7}}}, tbl{})
	add("t_bfussy", RowBin[*Fussy]{}, []interface{}{&RowBin[*Fussy]{1, nil}, &RowBin[*Fussy]{2, &Fussy{9}}}, tbl{noStr: true})
	// a self-serialising non-pointer column whose NULL form is not its zero value
	add("t_status", Row[Status]{}, mk[Status](-1, 0, 3), tbl{})
	add("t_pstatus", Row[*Status]{}, mk[*Status](nil, p(Status(0)), p(Status(2))), tbl{})
	add("t_wide", Wide{}, []interface{}{
		&Wide{Id: 1},
		&Wide{A: -3, Id: 2, B: p("b"), C: []byte("c"), D: times()[1], E: "e", F: p(1.5), G: 65535, H: "h"},
		&Wide{A: 127, Id: 3, B: p(""), C: []byte{}, D: times()[3], E: "", F: nil, G: 0, H: ""},
	}, tbl{})
	return ts
}

const mysqlTimeFmt = "2006-01-02 15:04:05.999999"

// reps lists the forms in which MySQL hands a driver.Value back: binary/text protocol
// results and change-log (replication) rows.
func reps(v driver.Value, col *sqlgen.Column, noStr bool) []interface{} {
	switch x := v.(type) {
	case nil:
		return []interface{}{nil}
	case int64:
		out := []interface{}{x, []byte(strconv.FormatInt(x, 10))}
		// replication rows carry signed ints of the column's width
		switch col.Descriptor.Kind {
		case reflect.Int8, reflect.Uint8, reflect.Bool:
			out = append(out, int8(x))
		case reflect.Int16, reflect.Uint16:
			out = append(out, int16(x))
		case reflect.Int32, reflect.Uint32:
			out = append(out, int32(x))
		}
		// (uint64 values above MaxInt64 are written as wrapped int64 by the Valuer, so the column
		// holding them is a signed BIGINT and hands them back signed; an unsigned text form cannot occur)
		return out
	case float64:
		out := []interface{}{x, []byte(strconv.FormatFloat(x, 'g', -1, 64))}
		if col.Descriptor.Kind == reflect.Float32 {
			out = append(out, float32(x), []byte(strconv.FormatFloat(x, 'g', -1, 32)))
		}
		return out
	case bool:
		n := int64(0)
		if x {
			n = 1
		}
		return []interface{}{x, n, int8(n), []byte(strconv.FormatInt(n, 10))}
	case string:
		return []interface{}{x, []byte(x)}
	case []byte:
		if noStr {
			return []interface{}{x}
		}
		return []interface{}{x, string(x)}
	case time.Time:
		return []interface{}{x, []byte(x.Format(mysqlTimeFmt)), x.Format(mysqlTimeFmt)}
	}
	return []interface{}{v}
}

func clsOf(t *tbl) string { return t.name }

// layouts of n struct columns in the database table: reversed, rotated, and with unmapped columns (-1) in front and
// in the middle
func layouts(n int) [][]int {
	var rev, rot, front, mid []int
	for i := 0; i < n; i++ {
		rev = append(rev, n-1-i)
		rot = append(rot, (i+1)%n)
	}
	front = append(front, -1)
	for i := 0; i < n; i++ {
		front = append(front, i)
		mid = append(mid, i)
		if i == 0 {
			mid = append(mid, -1, -1)
		}
	}
	return [][]int{rev, rot, front, mid}
}

func run(rp *explore.Report, tier string) {
	schema := sqlgen.NewSchema()
	ts := tables(schema)
	var k int64
	fail := func(clause, class, item, format string, a ...interface{}) {
		rp.AddViolation(&explore.Violation{Item: item, Signature: "c13/" + clause + "/" + class, Stable: true,
			Failures: []explore.Failure{{Clause: clause, Msg: fmt.Sprintf(format, a...)}}})
	}
	for ti := range ts {
		t := &ts[ti]
		table := schema.ByName[t.name]
		for _, row := range t.rows {
			item := fmt.Sprintf("%s %+v", t.name, reflect.ValueOf(row).Elem().Interface())
			vals, err := schema.UnbuildStruct(t.name, row)
			if err != nil {
				fail("unbuild", clsOf(t), item, "UnbuildStruct: %v", err)
				continue
			}
			for _, v := range vals {
				if !driver.IsValue(v) {
					fail("unbuild", clsOf(t), item, "UnbuildStruct produced %T, not a driver.Value", v)
				}
			}
			// every combination of source representations (one per column)
			alts := make([][]interface{}, len(vals))
			total := 1
			for i, v := range vals {
				alts[i] = reps(v, table.Columns[i], t.noStr)
				total *= len(alts[i])
			}
			if total > 600 { // wide table: vary one column at a time against the canonical form
				total = 0
				for i := range alts {
					total += len(alts[i])
				}
			}
			for c := 0; c < total; c++ {
				src := make([]driver.Value, len(vals))
				if len(vals) <= 3 {
					x := c
					for i := range alts {
						src[i] = alts[i][x%len(alts[i])]
						x /= len(alts[i])
					}
				} else {
					x := c
					for i := range alts {
						src[i] = alts[i][0]
						if x >= 0 && x < len(alts[i]) {
							src[i] = alts[i][x]
						}
						x -= len(alts[i])
					}
				}
				k++
				if !rp.Mine(k) {
					continue
				}
				rp.Cases++
				rp.Nontrivial++
				desc := fmt.Sprintf("%s from %s", item, describe(src))
				if rp.Cases%499 == 1 {
					rp.AddSample(desc)
				}
				got, err := schema.BuildStruct(t.name, src)
				if err != nil {
					fail("build-roundtrip", clsOf(t), desc, "BuildStruct failed: %v", err)
				} else if !t.eq(got, row) {
					fail("build-roundtrip", clsOf(t), desc, "BuildStruct gave %+v", reflect.ValueOf(got).Elem().Interface())
				}
				isrc := make([]interface{}, len(src))
				for i := range src {
					isrc[i] = src[i]
				}
				got, err = livesql.VerifParseBinlogRow(table, isrc)
				if err != nil {
					fail("binlog-roundtrip", clsOf(t), desc, "parseBinlogRow failed: %v", err)
				} else if !t.eq(got, row) {
					fail("binlog-roundtrip", clsOf(t), desc, "parseBinlogRow gave %+v", reflect.ValueOf(got).Elem().Interface())
				}
				// the database's column order need not be the struct's: columns are matched by name
				if c == 0 && len(src) >= 2 {
					for _, lay := range layouts(len(src)) {
						fdb := fakesql.New()
						ft := fdb.AddTable(table)
						cols := append([]string{}, ft.Cols...)
						ft.Cols = nil
						var dbRow []interface{}
						for _, ci := range lay {
							if ci < 0 {
								ft.Cols = append(ft.Cols, fmt.Sprintf("unmapped_%d", len(ft.Cols)))
								dbRow = append(dbRow, int64(77))
							} else {
								ft.Cols = append(ft.Cols, cols[ci])
								dbRow = append(dbRow, isrc[ci])
							}
						}
						conn := fdb.Open()
						got, err := livesql.VerifParseBinlogRowVia(conn, "testdb", table, dbRow)
						fdb.Close()
						rp.Cases++
						if err != nil {
							fail("binlog-roundtrip", clsOf(t)+"/column-order", desc, "database column order %v: parseBinlogRow failed: %v", ft.Cols, err)
						} else if !t.eq(got, row) {
							fail("binlog-roundtrip", clsOf(t)+"/column-order", desc, "database column order %v: parseBinlogRow gave %+v", ft.Cols, reflect.ValueOf(got).Elem().Interface())
						}
					}
				}
			}
			// a filter made from the row's own column values matches the row
			k++
			if rp.Mine(k) {
				rp.Cases++
				f := table.VerifExtractRow(row)
				tester, err := schema.MakeTester(t.name, f)
				if err != nil {
					fail("own-filter", clsOf(t), item, "MakeTester: %v", err)
				} else if !tester.Test(row) {
					fail("own-filter", clsOf(t), item, "the filter built from the row's own values %v does not match it", f)
				}
			}
		}
		// filters through protobuf: rejected, or matching exactly the same rows
		var filters []sqlgen.Filter
		filters = append(filters, sqlgen.Filter{}, nil)
		for _, row := range t.rows {
			rv := reflect.ValueOf(row).Elem()
			filters = append(filters, sqlgen.Filter{"id": rv.FieldByName("Id").Interface()})
			if t.name == "t_wide" {
				filters = append(filters, sqlgen.Filter{"a": rv.FieldByName("A").Interface(), "e": rv.FieldByName("E").Interface()},
					sqlgen.Filter{"b": rv.FieldByName("B").Interface()}, sqlgen.Filter{"f_col": rv.FieldByName("F").Interface(), "g": rv.FieldByName("G").Interface()},
					sqlgen.Filter{"d": rv.FieldByName("D").Interface()}, sqlgen.Filter{"h": rv.FieldByName("H").Interface()})
				continue
			}
			v := rv.FieldByName("V")
			filters = append(filters, sqlgen.Filter{"v": v.Interface()}, sqlgen.Filter{"v": v.Interface(), "id": rv.FieldByName("Id").Interface()})
			// the same column value in another Go form: pointer <-> value (scalar columns)
			if !t.filter {
				continue
			}
			// a value of a wider Go type that does not fit the column's type but wraps / rounds to this row's value
			// when it is narrowed (it matches no row before shipping)
			switch bv := reflect.Indirect(v); {
			case !bv.IsValid():
			case bv.Kind() == reflect.Int8 || bv.Kind() == reflect.Int16 || bv.Kind() == reflect.Int32:
				filters = append(filters, sqlgen.Filter{"v": bv.Int() + int64(1)<<uint(bv.Type().Bits())}, sqlgen.Filter{"v": bv.Int() - int64(1)<<uint(bv.Type().Bits())})
			case bv.Kind() == reflect.Uint8 || bv.Kind() == reflect.Uint16 || bv.Kind() == reflect.Uint32:
				filters = append(filters, sqlgen.Filter{"v": int64(bv.Uint()) + int64(1)<<uint(bv.Type().Bits())}, sqlgen.Filter{"v": int64(bv.Uint()) - int64(1)<<uint(bv.Type().Bits())})
			case bv.Kind() == reflect.Float32:
				filters = append(filters, sqlgen.Filter{"v": math.Nextafter(bv.Float(), math.Inf(1))})
			}
			if v.Kind() == reflect.Ptr && !v.IsNil() {
				filters = append(filters, sqlgen.Filter{"v": v.Elem().Interface()})
			} else if v.Kind() != reflect.Ptr && v.CanAddr() {
				filters = append(filters, sqlgen.Filter{"v": v.Addr().Interface()})
			}
		}
		if t.name == "t_fussy" { // filter values whose conversion to a column value fails
			filters = append(filters, sqlgen.Filter{"v": &Fussy{-1}}, sqlgen.Filter{"v": Fussy{-2}}, sqlgen.Filter{"v": &Fussy{-1}, "id": int64(1)})
		}
		for _, f := range filters {
			k++
			if !rp.Mine(k) {
				continue
			}
			rp.Cases++
			item := fmt.Sprintf("%s filter %s", t.name, describeFilter(f))
			orig, err := schema.MakeTester(t.name, f)
			if err != nil {
				fail("filter-proto", clsOf(t), item, "MakeTester(original): %v", err)
				continue
			}
			var pb *thunderpb.SQLFilter
			func() {
				defer func() {
					if p := recover(); p != nil {
						fail("filter-proto-panic", clsOf(t), item, "FilterToProto panicked: %v", p)
						err = fmt.Errorf("panic")
					}
				}()
				pb, err = livesql.FilterToProto(schema, t.name, f)
			}()
			if err != nil {
				continue // rejected with an error
			}
			wire, err := proto.Marshal(pb)
			if err != nil {
				continue
			}
			var back thunderpb.SQLFilter
			if err := proto.Unmarshal(wire, &back); err != nil {
				fail("filter-proto", clsOf(t), item, "wire bytes do not decode: %v", err)
				continue
			}
			var name string
			var f2 sqlgen.Filter
			func() {
				defer func() {
					if p := recover(); p != nil {
						fail("filter-proto-panic", clsOf(t), item, "FilterFromProto panicked: %v", p)
						err = fmt.Errorf("panic")
					}
				}()
				name, f2, err = livesql.FilterFromProto(schema, &back)
			}()
			if err != nil {
				continue // rejected with an error
			}
			rp.Nontrivial++
			if name != t.name {
				fail("filter-proto", clsOf(t), item, "table name %q became %q", t.name, name)
			}
			shipped, err := schema.MakeTester(t.name, f2)
			if err != nil {
				fail("filter-proto", clsOf(t), item, "MakeTester(shipped): %v", err)
				continue
			}
			for _, row := range t.rows {
				if a, b := orig.Test(row), shipped.Test(row); a != b {
					fail("filter-proto", clsOf(t), item, "row %+v: original filter matches=%v, shipped filter %s matches=%v",
						reflect.ValueOf(row).Elem().Interface(), a, describeFilter(f2), b)
				}
			}
		}
	}
	rp.AddOutcome(fmt.Sprintf("tables=%d", len(ts)))
}

func describe(src []driver.Value) string {
	var parts []string
	for _, v := range src {
		parts = append(parts, fmt.Sprintf("%T(%v)", v, v))
	}
	return "[" + strings.Join(parts, ", ") + "]"
}

func describeFilter(f sqlgen.Filter) string {
	if f == nil {
		return "nil"
	}
	var parts []string
	for k, v := range f {
		rv := reflect.ValueOf(v)
		if rv.Kind() == reflect.Ptr && !rv.IsNil() {
			parts = append(parts, fmt.Sprintf("%s=&%T(%v)", k, rv.Elem().Interface(), rv.Elem().Interface()))
		} else {
			parts = append(parts, fmt.Sprintf("%s=%T(%v)", k, v, v))
		}
	}
	return "{" + strings.Join(parts, " ") + "}"
}

func init() {
	reg.Register(&reg.Harness{Property: "C13", Name: "c13/codec", Level: "exploration", Run: run,
		Rule: "one registered table per supported column kind (all int/uint widths, floats, bool, string, named scalars, []byte, time.Time, pointers to each, string/binary/json/implicitnull tags, self-serialising types incl. one whose NULL form is not its zero value, proto-encoded message, a wide mixed table) x boundary values; for each row every combination of source representations of its SQL values (int64 / text []byte / typed replication ints / float32 / bool as 0-1 / string vs []byte / time as time.Time or text) is decoded by BuildStruct and by the change-log row parser and compared with the original; the filter made from a row's own values must match it; every filter (incl. pointer<->value forms, nil, values of a wider Go type that wrap or round to a row's value when narrowed) shipped through real protobuf bytes is rejected or matches exactly the same rows"})
}
