package c13

import (
	"context"
	"database/sql/driver"
	"fmt"
	"reflect"

	"github.com/samsarahq/thunder/sqlgen"
	"verif/explore"
	"verif/fix/fakesql"
	"verif/harness/reg"
	"vrt/rt"
)

// Concurrent decodes of rows of one table. Decoding itself has no synchronisation operation, so the harness
// supplies one: a column type whose Scan (called by database/sql, or by the row builder, in the middle of a row)
// is a scheduling point. Two or three threads decode different rows through the three decode paths that share the
// table's scanner pool (a query result, BuildStruct, and the filter-from-values path); every interleaving within the
// bound; each decoded struct must equal the struct the row was made from.

// Pausing is stored as text; scanning it yields to the scheduler.
type Pausing string

func (p *Pausing) Scan(src interface{}) error {
	rt.Yield()
	switch v := src.(type) {
	case string:
		*p = Pausing(v)
	case []byte:
		*p = Pausing(v)
	case nil:
		*p = ""
	default:
		return fmt.Errorf("Pausing: cannot scan %T", src)
	}
	return nil
}

func (p Pausing) Value() (driver.Value, error) { return string(p), nil }

type ConcRow struct {
	Id   int64 `sql:",primary"`
	Name string
	Mid  Pausing
	N    int64
	Opt  *int64
	Data []byte
}

type ccfg struct {
	Paths []string // per thread: "query" | "build"
}

func (c ccfg) name() string { return fmt.Sprintf("paths=%v", c.Paths) }

func concItem(c ccfg) *explore.Item {
	rowsIn := []*ConcRow{
		{Id: 1, Name: "one", Mid: "m1", N: 11, Opt: p(int64(5)), Data: []byte("d1")},
		{Id: 2, Name: "two", Mid: "m2", N: 22, Opt: nil, Data: []byte{}},
		{Id: 3, Name: "", Mid: "", N: -3, Opt: p(int64(0)), Data: []byte("d3")},
	}
	return &explore.Item{Name: c.name(), Bound: -1, MaxSteps: 20000, Body: func(x *explore.Exec) {
		schema := sqlgen.NewSchema()
		schema.MustRegisterType("conc", sqlgen.UniqueId, ConcRow{})
		fdb := fakesql.New()
		tbl := fdb.AddTable(schema.ByName["conc"])
		var raw [][]driver.Value
		for _, r := range rowsIn {
			vals, err := schema.UnbuildStruct("conc", r)
			if err != nil {
				x.Fail("harness", "", "UnbuildStruct: %v", err)
				return
			}
			dv := make([]driver.Value, len(vals))
			for i, v := range vals {
				if val, ok := v.(driver.Valuer); ok {
					dv[i], _ = val.Value()
				} else {
					dv[i] = v
				}
			}
			raw = append(raw, dv)
			tbl.Rows = append(tbl.Rows, append([]driver.Value{}, dv...))
		}
		db := sqlgen.NewDB(fdb.Open(), schema)
		x.Cleanup(fdb.Close)
		got := make([]interface{}, len(c.Paths))
		errs := make([]error, len(c.Paths))
		for ti, path := range c.Paths {
			ti, path := ti, path
			rt.Go(func() {
				defer func() {
					if p := recover(); p != nil {
						errs[ti] = fmt.Errorf("panic: %v", p)
					}
				}()
				switch path {
				case "query":
					var out []*ConcRow
					errs[ti] = db.Query(context.Background(), &out, sqlgen.Filter{"id": rowsIn[ti].Id}, nil)
					if errs[ti] == nil && len(out) == 1 {
						got[ti] = out[0]
					} else if errs[ti] == nil {
						errs[ti] = fmt.Errorf("%d rows", len(out))
					}
				case "build":
					got[ti], errs[ti] = schema.BuildStruct("conc", raw[ti])
				}
			})
		}
		rt.Quiesce()
		for ti := range c.Paths {
			if errs[ti] != nil {
				x.Fail("decode", "c13/concurrent/decode-error", "thread %d (%s) decoding row %d failed: %v", ti, c.Paths[ti], rowsIn[ti].Id, errs[ti])
				continue
			}
			if !reflect.DeepEqual(got[ti], rowsIn[ti]) {
				x.Fail("round-trip", "c13/concurrent/round-trip", "thread %d (%s) decoded row %d as %+v, the row was made from %+v", ti, c.Paths[ti], rowsIn[ti].Id, got[ti], rowsIn[ti])
			}
		}
		x.Outcome("threads=%d", len(c.Paths))
		x.Nontrivial()
	}}
}

func concConfigs(tier string) []ccfg {
	out := []ccfg{{[]string{"query", "query"}}, {[]string{"query", "build"}}, {[]string{"build", "build"}}}
	if tier == "thorough" {
		out = append(out, ccfg{[]string{"query", "query", "query"}}, ccfg{[]string{"query", "build", "query"}})
	}
	return out
}

func runConc(rp *explore.Report, tier string) {
	for _, c := range concConfigs(tier) {
		it := concItem(c)
		it.Split = true
		rp.Explore(it)
	}
}

func init() {
	reg.Register(&reg.Harness{Property: "C13", Name: "c13/concurrent-decode", Level: "model_checking", Bounds: [2]int{2, 3}, Run: runConc,
		Item: func(n string) *explore.Item {
			var c ccfg
			var a, b, d string
			k, _ := fmt.Sscanf(n, "paths=[%s %s %s", &a, &b, &d)
			for _, s := range []string{a, b, d}[:k] {
				for len(s) > 0 && s[len(s)-1] == ']' {
					s = s[:len(s)-1]
				}
				c.Paths = append(c.Paths, s)
			}
			return concItem(c)
		},
		Rule: "2-3 threads decode different rows of one table at the same time through the decode paths that share the table's scanner pool (query result via database/sql, BuildStruct), the table holding a column whose Scan is a scheduling point in the middle of the row; all interleavings within the deviation bound; oracle: every decoded struct equals the struct its row was made from, no decode fails or panics"})
}
