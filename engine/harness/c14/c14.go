// Package c14: validated queries cannot go wrong and responses match the advertised schema.
package c14

import (
	"context"
	"encoding/json"
	"fmt"
	"math"
	"sort"
	"strings"
	"time"

	"github.com/samsarahq/thunder/batch"
	"github.com/samsarahq/thunder/graphql"
	"github.com/samsarahq/thunder/graphql/introspection"
	"github.com/samsarahq/thunder/graphql/schemabuilder"
	"verif/explore"
	"verif/fix/gqlfix"
	"verif/harness/reg"
	"vrt/rt"
)

// ---------- fixture: Go shapes the builder accepts ----------

type Color int32
type NamedStr string
type NamedInt int16

type Text struct{ V string }

func (t Text) MarshalText() ([]byte, error) { return []byte("T:" + t.V), nil }

type Leaf struct {
	Id   int64
	Name string
}

type Other struct {
	Code int32
}

type Either struct {
	schemabuilder.Union
	*Leaf
	*Other
}

type Shape struct {
	I    int64
	I8   int8
	U16  uint16
	F32  float32
	F64  float64
	B    bool
	S    string
	NS   NamedStr
	NI   NamedInt
	C    Color
	T    time.Time
	By   []byte
	PS   *string
	PI   *int32
	PF   *float64
	PT   *time.Time
	Txt  Text
	PTxt *Text
	Ints []int64
	Strs []string
	PL   *Leaf
	VL   Leaf
	Ls   []*Leaf
	VLs  []Leaf
	Cs   []Color
	Hid  string `graphql:"-"`
	Ren  string `graphql:"renamed"`
}

type Args struct {
	N   int64
	S   *string
	C   Color
	L   []int32
	In  *Sub
	Opt int64 `graphql:",optional"`
}

type Sub struct {
	X int64
	Y *string
}

func p[T any](v T) *T { return &v }

func buildFixture() *schemabuilder.Schema {
	s := schemabuilder.NewSchema()
	s.Enum(Color(0), map[string]Color{"RED": 1, "GREEN": 2})
	full := func() *Shape {
		return &Shape{I: -5, I8: 7, U16: 65535, F32: 1.5, F64: math.Pi, B: true, S: "s", NS: "ns", NI: 3, C: 1, T: time.Date(2020, 1, 2, 3, 4, 5, 0, time.UTC), By: []byte{1, 2},
			PS: p("ps"), PI: p(int32(4)), PF: p(2.5), PT: p(time.Date(2021, 1, 1, 0, 0, 0, 0, time.UTC)), Txt: Text{"a"}, PTxt: &Text{"b"}, Ints: []int64{1, 2}, Strs: []string{"x"},
			PL: &Leaf{1, "l1"}, VL: Leaf{2, "l2"}, Ls: []*Leaf{{3, "l3"}, nil, {4, "l4"}}, VLs: []Leaf{{5, "l5"}}, Cs: []Color{1, 2}, Ren: "r"}
	}
	sparse := func() *Shape { return &Shape{C: 2, T: time.Date(1999, 1, 1, 0, 0, 0, 0, time.UTC)} }
	q := s.Query()
	q.FieldFunc("full", func() *Shape { return full() })
	q.FieldFunc("sparse", func() *Shape { return sparse() })
	q.FieldFunc("none", func() *Shape { return nil })
	q.FieldFunc("value", func() Shape { return *full() })
	q.FieldFunc("shapes", func() []*Shape { return []*Shape{full(), sparse()} })
	q.FieldFunc("noShapes", func() []*Shape { return nil })
	q.FieldFunc("required", func() *Shape { return full() }, schemabuilder.NonNullable)
	q.FieldFunc("requiredList", func() []*Leaf { return []*Leaf{{1, "a"}} }, schemabuilder.ListEntryNonNullable)
	q.FieldFunc("either", func(args struct{ Which int64 }) *Either {
		switch args.Which {
		case 0:
			return &Either{Leaf: &Leaf{9, "e"}}
		case 1:
			return &Either{Other: &Other{42}}
		}
		return nil
	})
	q.FieldFunc("eithers", func() []*Either { return []*Either{{Leaf: &Leaf{9, "e"}}, {Other: &Other{42}}} })
	q.FieldFunc("withArgs", func(ctx context.Context, args Args) (*Leaf, error) { return &Leaf{args.N, "args"}, nil })
	q.FieldFunc("count", func(ctx context.Context) (int64, error) { return 3, nil })
	q.FieldFunc("flag", func() bool { return false })
	q.FieldFunc("color", func() Color { return 2 })
	q.FieldFunc("maybeColor", func() *Color { return nil })
	q.FieldFunc("noReturn", func() {})
	shape := s.Object("Shape", Shape{})
	shape.FieldFunc("computed", func(sh *Shape) string { return sh.S + "!" })
	shape.FieldFunc("expensive", func(ctx context.Context, sh *Shape) (*Leaf, error) { return sh.PL, nil }, schemabuilder.Expensive)
	shape.FieldFunc("withArg", func(sh *Shape, args struct{ Mul int64 }) int64 { return sh.I * args.Mul })
	shape.BatchFieldFunc("batched", func(ctx context.Context, in map[batch.Index]*Shape) (map[batch.Index]*Leaf, error) {
		out := map[batch.Index]*Leaf{}
		for i, sh := range in {
			out[i] = sh.PL
		}
		return out, nil
	})
	shape.FieldFunc("leaves", func(sh *Shape) []Leaf { return sh.VLs })
	shape.FieldFunc("union", func(sh *Shape) *Either {
		if sh.PL != nil {
			return &Either{Leaf: sh.PL}
		}
		return &Either{Other: &Other{1}}
	})
	leaf := s.Object("Leaf", Leaf{})
	leaf.Key("id")
	leaf.FieldFunc("upper", func(l *Leaf) string { return strings.ToUpper(l.Name) })
	s.Object("Other", Other{})
	s.Mutation().FieldFunc("noop", func() bool { return true })
	return s
}

// ---------- advertised schema (from introspection JSON only) ----------

type typeRef struct {
	Kind   string   `json:"kind"`
	Name   string   `json:"name"`
	OfType *typeRef `json:"ofType"`
}

type inputValue struct {
	Name string  `json:"name"`
	Type typeRef `json:"type"`
}

type fieldDef struct {
	Name string       `json:"name"`
	Args []inputValue `json:"args"`
	Type typeRef      `json:"type"`
}

type typeDef struct {
	Kind          string                  `json:"kind"`
	Name          string                  `json:"name"`
	Fields        []fieldDef              `json:"fields"`
	InputFields   []inputValue            `json:"inputFields"`
	EnumValues    []struct{ Name string } `json:"enumValues"`
	PossibleTypes []typeRef               `json:"possibleTypes"`
}

type advertised struct {
	types map[string]*typeDef
	query string
}

func loadAdvertised(b []byte) (*advertised, error) {
	var doc struct {
		Schema struct {
			QueryType struct{ Name string } `json:"queryType"`
			Types     []*typeDef            `json:"types"`
		} `json:"__schema"`
	}
	if err := json.Unmarshal(b, &doc); err != nil {
		return nil, err
	}
	a := &advertised{types: map[string]*typeDef{}, query: doc.Schema.QueryType.Name}
	for _, t := range doc.Schema.Types {
		a.types[t.Name] = t
		sort.Slice(t.Fields, func(i, j int) bool { return t.Fields[i].Name < t.Fields[j].Name })
	}
	return a, nil
}

func (r *typeRef) named() *typeRef {
	for r.OfType != nil {
		r = r.OfType
	}
	return r
}

// literal renders a minimal valid GraphQL literal for an advertised input type.
func (a *advertised) literal(r *typeRef, depth int) string {
	switch r.Kind {
	case "NON_NULL":
		return a.literal(r.OfType, depth)
	case "LIST":
		return "[" + a.literal(r.OfType, depth) + "]"
	case "ENUM":
		return a.types[r.Name].EnumValues[0].Name
	case "INPUT_OBJECT":
		var parts []string
		for _, f := range a.types[r.Name].InputFields {
			if f.Type.Kind == "NON_NULL" || depth < 1 {
				parts = append(parts, f.Name+": "+a.literal(&f.Type, depth+1))
			}
		}
		return "{" + strings.Join(parts, ", ") + "}"
	}
	switch {
	case strings.HasPrefix(r.Name, "int"), strings.HasPrefix(r.Name, "uint"):
		return "1"
	case strings.HasPrefix(r.Name, "float"):
		return "1.5"
	case r.Name == "bool":
		return "true"
	case r.Name == "Time":
		return `"2020-01-02T03:04:05Z"`
	case r.Name == "bytes":
		return `"YQ=="`
	}
	return `"s"`
}

func (a *advertised) call(f *fieldDef) string {
	if len(f.Args) == 0 {
		return f.Name
	}
	var parts []string
	for _, arg := range f.Args {
		parts = append(parts, arg.Name+": "+a.literal(&arg.Type, 0))
	}
	return f.Name + "(" + strings.Join(parts, ", ") + ")"
}

func isLeaf(t *typeDef) bool { return t.Kind == "SCALAR" || t.Kind == "ENUM" }

// sel is a selection tree over the advertised schema.
type sel struct {
	alias  string
	field  *fieldDef         // nil for __typename
	sub    []*sel            // object sub-selection
	onType map[string][]*sel // union: per member type
	raw    string            // ill-formed fragment text (printed verbatim), no conformance info
}

func (a *advertised) print(ss []*sel) string {
	var parts []string
	for _, s := range ss {
		if s.raw != "" {
			parts = append(parts, s.raw)
			continue
		}
		if s.field == nil {
			parts = append(parts, s.alias+": __typename")
			continue
		}
		txt := s.alias + ": " + a.call(s.field)
		if s.sub != nil {
			txt += " { " + a.print(s.sub) + " }"
		}
		if s.onType != nil {
			var ks []string
			for k := range s.onType {
				ks = append(ks, k)
			}
			sort.Strings(ks)
			txt += " { ut: __typename"
			for _, k := range ks {
				txt += " ... on " + k + " { " + a.print(s.onType[k]) + " }"
			}
			txt += " }"
		}
		parts = append(parts, txt)
	}
	return strings.Join(parts, " ")
}

// minimal returns a minimal valid selection for a field (scalars for objects, all members for unions).
func (a *advertised) selectField(f *fieldDef, alias string, depth int) *sel {
	t := a.types[f.Type.named().Name]
	s := &sel{alias: alias, field: f}
	switch t.Kind {
	case "OBJECT":
		s.sub = a.scalars(t, depth)
	case "UNION":
		s.onType = map[string][]*sel{}
		for _, pt := range t.PossibleTypes {
			s.onType[pt.Name] = a.scalars(a.types[pt.Name], depth)
		}
	}
	return s
}

// scalars selects every leaf field of an object (and, while depth allows, its composite fields minimally).
func (a *advertised) scalars(t *typeDef, depth int) []*sel {
	var out []*sel
	out = append(out, &sel{alias: "tn"})
	for i := range t.Fields {
		f := &t.Fields[i]
		ft := a.types[f.Type.named().Name]
		if isLeaf(ft) {
			out = append(out, &sel{alias: f.Name, field: f})
		} else if depth > 0 {
			out = append(out, a.selectField(f, f.Name, depth-1))
		}
	}
	return out
}

// ---------- conformance ----------

func scalarOK(name string, v interface{}) bool {
	switch {
	case strings.HasPrefix(name, "int"), strings.HasPrefix(name, "uint"):
		f, ok := v.(float64)
		return ok && f == math.Trunc(f)
	case strings.HasPrefix(name, "float"):
		_, ok := v.(float64)
		return ok
	case name == "bool":
		_, ok := v.(bool)
		return ok
	}
	_, ok := v.(string)
	return ok
}

func (a *advertised) conform(r *typeRef, s *sel, v interface{}, path string, listEntry bool) string {
	switch r.Kind {
	case "NON_NULL":
		if v == nil {
			if listEntry {
				return ""
			}
			return path + ": null for a non-null type"
		}
		return a.conform(r.OfType, s, v, path, false)
	}
	if v == nil {
		return ""
	}
	switch r.Kind {
	case "LIST":
		l, ok := v.([]interface{})
		if !ok {
			return fmt.Sprintf("%s: %T where a list is advertised", path, v)
		}
		for i, el := range l {
			if e := a.conform(r.OfType, s, el, fmt.Sprintf("%s[%d]", path, i), true); e != "" {
				return e
			}
		}
		return ""
	case "SCALAR":
		if !scalarOK(r.Name, v) {
			return fmt.Sprintf("%s: %v (%T) is not a JSON value of scalar %s", path, v, v, r.Name)
		}
		return ""
	case "ENUM":
		str, ok := v.(string)
		if !ok {
			return fmt.Sprintf("%s: %v is not an enum string", path, v)
		}
		for _, ev := range a.types[r.Name].EnumValues {
			if ev.Name == str {
				return ""
			}
		}
		return fmt.Sprintf("%s: %q is not among the advertised values of %s", path, str, r.Name)
	case "OBJECT":
		return a.conformObject(a.types[r.Name], s.sub, v, path)
	case "UNION":
		m, ok := v.(map[string]interface{})
		if !ok {
			return fmt.Sprintf("%s: %T where a union object is advertised", path, v)
		}
		tn, _ := m["ut"].(string)
		sub, ok := s.onType[tn]
		if !ok {
			return fmt.Sprintf("%s: __typename %q is not a possible type of %s", path, tn, r.Name)
		}
		rest := map[string]interface{}{}
		for k, x := range m {
			if k != "ut" {
				rest[k] = x
			}
		}
		return a.conformObject(a.types[tn], sub, rest, path)
	}
	return path + ": unknown advertised kind " + r.Kind
}

func (a *advertised) conformObject(t *typeDef, ss []*sel, v interface{}, path string) string {
	m, ok := v.(map[string]interface{})
	if !ok {
		return fmt.Sprintf("%s: %T where object %s is advertised", path, v, t.Name)
	}
	want := map[string]bool{}
	for _, s := range ss {
		want[s.alias] = true
		x, present := m[s.alias]
		if !present {
			return fmt.Sprintf("%s: selected field %q is missing from the response", path, s.alias)
		}
		if s.field == nil {
			if x != t.Name {
				return fmt.Sprintf("%s.%s: __typename %v, want %s", path, s.alias, x, t.Name)
			}
			continue
		}
		if e := a.conform(&s.field.Type, s, x, path+"."+s.alias, false); e != "" {
			return e
		}
	}
	for k := range m {
		if !want[k] && k != "__key" {
			return fmt.Sprintf("%s: unselected key %q in the response", path, k)
		}
	}
	return ""
}

// ---------- enumeration ----------

type qcase struct {
	text       string
	root       []*sel
	wellFormed bool
	kind       string
}

func (a *advertised) generate(depth int) []qcase {
	var out []qcase
	q := a.types[a.query]
	add := func(root []*sel, ok bool, kind string) {
		out = append(out, qcase{text: "{ " + a.print(root) + " }", root: root, wellFormed: ok, kind: kind})
	}
	// walk every path of composite fields up to the depth; at its end select (a) all leaves, (b) each field alone
	var walk func(t *typeDef, wrap func([]*sel) []*sel, d int)
	walk = func(t *typeDef, wrap func([]*sel) []*sel, d int) {
		add(wrap(a.scalars(t, 0)), true, "all-leaves")
		add(wrap(a.scalars(t, 1)), true, "all-fields")
		for i := range t.Fields {
			f := &t.Fields[i]
			ft := a.types[f.Type.named().Name]
			add(wrap([]*sel{a.selectField(f, "x", 0)}), true, "single-field")
			add(wrap([]*sel{a.selectField(f, "x", 0), a.selectField(f, "y", 0)}), true, "aliased-twice")
			// ill-formed variants at this position
			if isLeaf(ft) {
				add(wrap([]*sel{{raw: a.call(f) + " { bogus }"}}), false, "selection-on-leaf")
			} else {
				add(wrap([]*sel{{raw: a.call(f)}}), false, "no-selection-on-composite")
				if ft.Kind == "OBJECT" {
					add(wrap([]*sel{{raw: a.call(f) + " { noSuchField }"}}), false, "unknown-field")
				} else {
					add(wrap([]*sel{{raw: a.call(f) + " { ... on " + ft.PossibleTypes[0].Name + " { noSuchField } }"}}), false, "unknown-field")
					add(wrap([]*sel{{raw: a.call(f) + " { noSuchField }"}}), false, "unknown-field")
				}
			}
			if d > 0 && ft.Kind == "OBJECT" {
				f := f
				walk(ft, func(inner []*sel) []*sel { return wrap([]*sel{{alias: f.Name, field: f, sub: inner}}) }, d-1)
			}
			if d > 0 && ft.Kind == "UNION" {
				for _, pt := range ft.PossibleTypes {
					f, pt := f, pt
					walk(a.types[pt.Name], func(inner []*sel) []*sel {
						on := map[string][]*sel{}
						for _, o := range ft.PossibleTypes {
							on[o.Name] = []*sel{{alias: "tn"}}
						}
						on[pt.Name] = inner
						return wrap([]*sel{{alias: f.Name, field: f, onType: on}})
					}, d-1)
				}
			}
		}
		add(wrap([]*sel{{raw: "noSuchField"}}), false, "unknown-field")
	}
	walk(q, func(s []*sel) []*sel { return s }, depth)
	return out
}

func run(rp *explore.Report, tier string) {
	sb := buildFixture()
	var raw []byte
	var err error
	rt.RunDefault(func() { raw, err = introspection.ComputeSchemaJSON(*sb) })
	if err != nil {
		panic(err)
	}
	adv, err := loadAdvertised(raw)
	if err != nil {
		panic(err)
	}
	schema := buildFixture().MustBuild()
	depth := 2
	if tier == "thorough" {
		depth = 3
	}
	cases := adv.generate(depth)
	var k int64
	fail := func(clause, class, item, format string, a ...interface{}) {
		rp.AddViolation(&explore.Violation{Item: item, Signature: "c14/" + clause + "/" + class, Stable: true,
			Failures: []explore.Failure{{Clause: clause, Msg: fmt.Sprintf(format, a...)}}})
	}
	for _, c := range cases {
		k++
		if !rp.Mine(k) {
			continue
		}
		rp.Cases++
		if rp.Cases%97 == 1 {
			rp.AddSample(map[string]interface{}{"query": c.text, "well_formed": c.wellFormed, "kind": c.kind})
		}
		q, perr := graphql.Parse(c.text, nil)
		if perr == nil {
			perr = graphql.PrepareQuery(context.Background(), schema.Query, q.SelectionSet)
		}
		if !c.wellFormed {
			rp.Nontrivial++
			if perr == nil {
				fail("ill-formed-rejected", c.kind, c.text, "validation accepted an ill-formed query (%s)", c.kind)
			}
			continue
		}
		if perr != nil {
			fail("advertised-is-accepted", c.kind, c.text, "a query built only from advertised fields and types was rejected: %v", perr)
			continue
		}
		rp.Nontrivial++
		for si, sched := range []graphql.WorkScheduler{gqlfix.FIFO{}, gqlfix.LIFO{}} {
			res, err := gqlfix.Exec(context.Background(), schema, sched, c.text, nil)
			if err != nil {
				fail("accepted-cannot-go-wrong", c.kind, c.text, "execution of an accepted query failed (scheduler %d): %v", si, err)
				continue
			}
			if e := adv.conformObject(adv.types[adv.query], c.root, res, "$"); e != "" {
				fail("response-conforms", c.kind, c.text, "response %s does not conform to the advertised schema: %s", gqlfix.JS(res), e)
			}
		}
	}
	rp.AddOutcome(fmt.Sprintf("types=%d cases=%d", len(adv.types), len(cases)))
}

func init() {
	reg.Register(&reg.Harness{Property: "C14", Name: "c14/advertised", Level: "exploration", Run: run,
		Rule: "fixture of Go shapes (all scalar widths, named scalars, enum, time, bytes, text-marshaler, pointers, slices of values/pointers/enums, nested and value structs, union, NonNullable / ListEntryNonNullable / Expensive / batch methods, methods with every signature form, arguments incl. input objects) -> introspection JSON. From the JSON alone: every path of composite fields up to depth 2 (thorough 3), ending in all leaves / all fields / each field alone / the same field under two aliases (arguments filled from advertised input types), plus at every position the three ill-formedness kinds (unknown field, selection on a leaf, none on a composite). Oracle: ill-formed => rejected; well-formed => accepted, executes without error under FIFO and LIFO schedulers, and the response conforms to the advertised types (exact aliases, lists, scalar JSON kinds, enum values, null only where nullable, list entries excepted)"})
}
