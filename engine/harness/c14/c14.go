// Package c14: validated queries cannot go wrong and responses match the advertised schema.
package c14

import (
	"context"
	"fmt"
	"math"
	"strings"
	"time"

	"github.com/samsarahq/thunder/batch"
	"github.com/samsarahq/thunder/graphql"
	"github.com/samsarahq/thunder/graphql/introspection"
	"github.com/samsarahq/thunder/graphql/schemabuilder"
	"verif/explore"
	"verif/fix/advert"
	"verif/fix/gqlfix"
	"verif/harness/reg"
	"vrt/rt"
)

// ---------- fixture: Go shapes the builder accepts ----------

type Color int32
type NamedStr string
type NamedInt int16

type Text struct{ V string }

func (t Text) MarshalText() ([]byte, error) { return []byte("T:" + t.V), nil }

// Level is a named integer that renders itself as text
type Level int

func (l Level) MarshalText() ([]byte, error) { return []byte([]string{"low", "mid", "high"}[int(l)%3]), nil }

type Leaf struct {
	Id   int64
	Name string
}

type Other struct {
	Code int32
}

type Either struct {
	schemabuilder.Union
	*Leaf
	*Other
}

type Shape struct {
	I    int64
	I8   int8
	U16  uint16
	F32  float32
	F64  float64
	B    bool
	S    string
	NS   NamedStr
	NI   NamedInt
	C    Color
	T    time.Time
	By   []byte
	PS   *string
	PI   *int32
	PF   *float64
	PT   *time.Time
	Txt  Text
	PTxt *Text
	Ints []int64
	Strs []string
	PL   *Leaf
	VL   Leaf
	Ls   []*Leaf
	VLs  []Leaf
	Cs   []Color
	Lvl  Level
	PLvl *Level
	Hid  string `graphql:"-"`
	Ren  string `graphql:"renamed"`
}

type Args struct {
	N   int64
	S   *string
	C   Color
	L   []int32
	In  *Sub
	Opt int64 `graphql:",optional"`
}

type ScaleArgs struct{ Mul int64 }
type ScaleArgsToo struct{ Mul int64 }

type Sub struct {
	X int64
	Y *string
}

func p[T any](v T) *T { return &v }

func buildFixture() *schemabuilder.Schema {
	s := schemabuilder.NewSchema()
	s.Enum(Color(0), map[string]Color{"RED": 1, "GREEN": 2})
	full := func() *Shape {
		return &Shape{I: -5, I8: 7, U16: 65535, F32: 1.5, F64: math.Pi, B: true, S: "s", NS: "ns", NI: 3, C: 1, T: time.Date(2020, 1, 2, 3, 4, 5, 0, time.UTC), By: []byte{1, 2},
			PS: p("ps"), PI: p(int32(4)), PF: p(2.5), PT: p(time.Date(2021, 1, 1, 0, 0, 0, 0, time.UTC)), Txt: Text{"a"}, PTxt: &Text{"b"}, Ints: []int64{1, 2}, Strs: []string{"x"},
			PL: &Leaf{1, "l1"}, VL: Leaf{2, "l2"}, Ls: []*Leaf{{3, "l3"}, nil, {4, "l4"}}, VLs: []Leaf{{5, "l5"}}, Cs: []Color{1, 2}, Ren: "r", Lvl: 2, PLvl: p(Level(1))}
	}
	sparse := func() *Shape { return &Shape{C: 2, T: time.Date(1999, 1, 1, 0, 0, 0, 0, time.UTC)} }
	// one long-lived object reachable through several root fields (same pointer: the same source for cached fields)
	shared := full()
	full = func() *Shape { return shared }
	q := s.Query()
	q.FieldFunc("full", func() *Shape { return full() })
	q.FieldFunc("sparse", func() *Shape { return sparse() })
	q.FieldFunc("none", func() *Shape { return nil })
	q.FieldFunc("value", func() Shape { return *full() })
	q.FieldFunc("shapes", func() []*Shape { return []*Shape{full(), sparse()} })
	q.FieldFunc("noShapes", func() []*Shape { return nil })
	q.FieldFunc("nilShapes", func() []*Shape { return []*Shape{nil, nil} })
	q.FieldFunc("required", func() *Shape { return full() }, schemabuilder.NonNullable)
	q.FieldFunc("requiredList", func() []*Leaf { return []*Leaf{{1, "a"}} }, schemabuilder.ListEntryNonNullable)
	q.FieldFunc("either", func(args struct{ Which int64 }) *Either {
		switch args.Which {
		case 0:
			return &Either{Leaf: &Leaf{9, "e"}}
		case 1:
			return &Either{Other: &Other{42}}
		}
		return nil
	})
	q.FieldFunc("eithers", func() []*Either { return []*Either{{Leaf: &Leaf{9, "e"}}, {Other: &Other{42}}} })
	q.FieldFunc("withArgs", func(ctx context.Context, args Args) (*Leaf, error) { return &Leaf{args.N, "args"}, nil })
	q.FieldFunc("count", func(ctx context.Context) (int64, error) { return 3, nil })
	q.FieldFunc("flag", func() bool { return false })
	q.FieldFunc("color", func() Color { return 2 })
	q.FieldFunc("maybeColor", func() *Color { return nil })
	q.FieldFunc("noReturn", func() {})
	shape := s.Object("Shape", Shape{})
	shape.FieldFunc("computed", func(sh *Shape) string { return sh.S + "!" })
	shape.FieldFunc("expensive", func(ctx context.Context, sh *Shape) (*Leaf, error) { return sh.PL, nil }, schemabuilder.Expensive)
	shape.FieldFunc("withArg", func(sh *Shape, args struct{ Mul int64 }) int64 { return sh.I * args.Mul })
	shape.BatchFieldFunc("batched", func(ctx context.Context, in map[batch.Index]*Shape) (map[batch.Index]*Leaf, error) {
		out := map[batch.Index]*Leaf{}
		for i, sh := range in {
			out[i] = sh.PL
		}
		return out, nil
	})
	// batch fields that leave some objects without a result: a text-marshaler value, an enum, a named integer that
	// renders as text
	shape.BatchFieldFunc("batchedText", func(ctx context.Context, in map[batch.Index]*Shape) (map[batch.Index]Text, error) {
		out := map[batch.Index]Text{}
		for i, sh := range in {
			if sh.PL != nil {
				out[i] = Text{sh.S}
			}
		}
		return out, nil
	})
	shape.BatchFieldFunc("batchedColor", func(ctx context.Context, in map[batch.Index]*Shape) (map[batch.Index]Color, error) {
		out := map[batch.Index]Color{}
		for i, sh := range in {
			if sh.PL != nil {
				out[i] = sh.C
			}
		}
		return out, nil
	})
	shape.BatchFieldFunc("batchedLevel", func(ctx context.Context, in map[batch.Index]*Shape) (map[batch.Index]Level, error) {
		out := map[batch.Index]Level{}
		for i, sh := range in {
			if sh.PL != nil {
				out[i] = sh.Lvl
			}
		}
		return out, nil
	})
	// resolvers that promise non-null and return nil for some objects (the sparse shape): thunder must answer with an
	// error, never pass the null on
	shape.BatchFieldFunc("reqBatched", func(ctx context.Context, in map[batch.Index]*Shape) (map[batch.Index]*Leaf, error) {
		out := map[batch.Index]*Leaf{}
		for i, sh := range in {
			out[i] = sh.PL
		}
		return out, nil
	}, schemabuilder.NonNullable)
	shape.BatchFieldFunc("reqBatchedName", func(ctx context.Context, in map[batch.Index]*Shape) (map[batch.Index]*string, error) {
		out := map[batch.Index]*string{}
		for i, sh := range in {
			out[i] = sh.PS
		}
		return out, nil
	}, schemabuilder.NonNullable)
	shape.FieldFunc("reqLeaf", func(sh *Shape) *Leaf { return sh.PL }, schemabuilder.NonNullable)
	// methods split into parallel invocations (selected under null objects too: zero sources to split)
	two := schemabuilder.NumParallelInvocationsFunc(func(ctx context.Context, n int) int { return 2 })
	shape.FieldFunc("parallel", func(sh *Shape) string { return "p:" + sh.S }, two)
	shape.BatchFieldFunc("parallelBatched", func(ctx context.Context, in map[batch.Index]*Shape) (map[batch.Index]int64, error) {
		out := map[batch.Index]int64{}
		for i, sh := range in {
			out[i] = sh.I
		}
		return out, nil
	}, two)
	// a batch field whose fallback declares its own (identical) args struct type, with the batch function and with
	// the fallback in use
	for name, useBatch := range map[string]bool{"scaledBatch": true, "scaledFallback": false} {
		useBatch := useBatch
		shape.BatchFieldFuncWithFallback(name,
			func(ctx context.Context, in map[batch.Index]*Shape, args ScaleArgs) (map[batch.Index]*int64, error) {
				out := map[batch.Index]*int64{}
				for i, sh := range in {
					out[i] = p(sh.I * args.Mul)
				}
				return out, nil
			},
			func(ctx context.Context, sh *Shape, args ScaleArgsToo) (*int64, error) { return p(sh.I * args.Mul), nil },
			func(context.Context) bool { return useBatch })
	}
	shape.FieldFunc("leaves", func(sh *Shape) []Leaf { return sh.VLs })
	shape.FieldFunc("union", func(sh *Shape) *Either {
		if sh.PL != nil {
			return &Either{Leaf: sh.PL}
		}
		return &Either{Other: &Other{1}}
	})
	leaf := s.Object("Leaf", Leaf{})
	leaf.Key("id")
	leaf.FieldFunc("upper", func(l *Leaf) string { return strings.ToUpper(l.Name) })
	// one field name on two object types, with arguments of different types
	leaf.FieldFunc("tagged", func(l *Leaf, args struct{ N int64 }) string { return fmt.Sprint(l.Name, args.N) })
	other := s.Object("Alt", Other{})
	other.FieldFunc("tagged", func(o *Other, args struct{ N string }) string { return fmt.Sprint(o.Code, args.N) }) // registered under another name than its Go type's
	// same field name as Leaf.id (a scalar there), but an object here
	other.FieldFunc("id", func(o *Other) *Leaf { return &Leaf{int64(o.Code), "of-other"} })
	s.Mutation().FieldFunc("noop", func() bool { return true })
	return s
}

// ---------- enumeration ----------

type qcase struct {
	text       string
	root       []*advert.Sel
	wellFormed bool
	lenient    bool // validation may reject; if it accepts, execution must not go wrong
	kind       string
}

func generate(a *advert.Advertised, depth int) []qcase {
	var out []qcase
	q := a.Types[a.Query]
	add := func(root []*advert.Sel, ok bool, kind string) {
		out = append(out, qcase{text: "{ " + a.Print(root) + " }", root: root, wellFormed: ok, kind: kind})
	}
	// walk every path of composite fields up to the depth; at its end select (a) all leaves, (b) each field alone
	var walk func(t *advert.TypeDef, wrap func([]*advert.Sel) []*advert.Sel, d int)
	walk = func(t *advert.TypeDef, wrap func([]*advert.Sel) []*advert.Sel, d int) {
		add(wrap(a.Scalars(t, 0)), true, "all-leaves")
		add(wrap(a.Scalars(t, 1)), true, "all-fields")
		for i := range t.Fields {
			f := &t.Fields[i]
			ft := a.Types[f.Type.Named().Name]
			add(wrap([]*advert.Sel{a.SelectField(f, "x", 0)}), true, "single-field")
			add(wrap([]*advert.Sel{a.SelectField(f, "x", 0), a.SelectField(f, "y", 0)}), true, "aliased-twice")
			// ill-formed variants at this position
			if advert.IsLeaf(ft) {
				add(wrap([]*advert.Sel{{Raw: a.Call(f) + " { bogus }"}}), false, "selection-on-leaf")
			} else {
				add(wrap([]*advert.Sel{{Raw: a.Call(f)}}), false, "no-selection-on-composite")
				if ft.Kind == "OBJECT" {
					add(wrap([]*advert.Sel{{Raw: a.Call(f) + " { noSuchField }"}}), false, "unknown-field")
				} else {
					add(wrap([]*advert.Sel{{Raw: a.Call(f) + " { ... on " + ft.PossibleTypes[0].Name + " { noSuchField } }"}}), false, "unknown-field")
					add(wrap([]*advert.Sel{{Raw: a.Call(f) + " { noSuchField }"}}), false, "unknown-field")
				}
			}
			if d > 0 && ft.Kind == "OBJECT" {
				f := f
				walk(ft, func(inner []*advert.Sel) []*advert.Sel {
					return wrap([]*advert.Sel{{Alias: f.Name, Field: f, Sub: inner}})
				}, d-1)
			}
			if ft.Kind == "UNION" {
				// fragments for only some members (or none): the other members still answer the union's own __typename
				first := ft.PossibleTypes[0].Name
				add(wrap([]*advert.Sel{{Alias: f.Name, Field: f, OnType: map[string][]*advert.Sel{first: a.Scalars(a.Types[first], 0)}}}), true, "union-partial-fragments")
				last := ft.PossibleTypes[len(ft.PossibleTypes)-1].Name
				add(wrap([]*advert.Sel{{Alias: f.Name, Field: f, OnType: map[string][]*advert.Sel{last: a.Scalars(a.Types[last], 0)}}}), true, "union-partial-fragments")
				add(wrap([]*advert.Sel{{Alias: f.Name, Field: f, OnType: map[string][]*advert.Sel{}}}), true, "union-no-fragments")
			}
			if d > 0 && ft.Kind == "UNION" {
				for _, pt := range ft.PossibleTypes {
					f, pt := f, pt
					walk(a.Types[pt.Name], func(inner []*advert.Sel) []*advert.Sel {
						on := map[string][]*advert.Sel{}
						for _, o := range ft.PossibleTypes {
							on[o.Name] = []*advert.Sel{{Alias: "tn"}}
						}
						on[pt.Name] = inner
						return wrap([]*advert.Sel{{Alias: f.Name, Field: f, OnType: on}})
					}, d-1)
				}
			}
		}
		add(wrap([]*advert.Sel{{Raw: "noSuchField"}}), false, "unknown-field")
	}
	walk(q, func(s []*advert.Sel) []*advert.Sel { return s }, depth)
	return out
}

// sharedFragments: one named fragment spread at two positions. The fragment's selections are parsed once and shared by
// both spreads, so everything validation (or the executor) remembers on a selection is remembered across positions.
// Same type at both positions => well-formed; a position whose type lacks the field, or has it with the other
// leaf/composite kind, => ill-formed, in both spread orders.
func sharedFragments(a *advert.Advertised) []qcase {
	type wrapFn func(alias string, inner []*advert.Sel) *advert.Sel
	paths := map[string][]wrapFn{}
	var order []string
	addPath := func(t string, w wrapFn) bool {
		if len(paths[t]) >= 6 {
			return false
		}
		if len(paths[t]) == 0 {
			order = append(order, t)
		}
		paths[t] = append(paths[t], w)
		return true
	}
	var expand func(t *advert.TypeDef, mk func(alias string, s *advert.Sel) *advert.Sel, d int)
	expand = func(t *advert.TypeDef, mk func(alias string, s *advert.Sel) *advert.Sel, d int) {
		for i := range t.Fields {
			f := &t.Fields[i]
			ft := a.Types[f.Type.Named().Name]
			switch ft.Kind {
			case "OBJECT":
				w := func(alias string, inner []*advert.Sel) *advert.Sel {
					return mk(alias, &advert.Sel{Alias: f.Name, Field: f, Sub: inner})
				}
				if addPath(ft.Name, w) && d > 0 {
					expand(ft, func(alias string, s *advert.Sel) *advert.Sel { return w(alias, []*advert.Sel{s}) }, d-1)
				}
			case "UNION":
				for _, pt := range ft.PossibleTypes {
					pt := pt
					w := func(alias string, inner []*advert.Sel) *advert.Sel {
						on := map[string][]*advert.Sel{}
						for _, o := range ft.PossibleTypes {
							on[o.Name] = []*advert.Sel{{Alias: "tn"}}
						}
						on[pt.Name] = inner
						return mk(alias, &advert.Sel{Alias: f.Name, Field: f, OnType: on})
					}
					if addPath(pt.Name, w) && d > 0 {
						expand(a.Types[pt.Name], func(alias string, s *advert.Sel) *advert.Sel { return w(alias, []*advert.Sel{s}) }, d-1)
					}
				}
			}
		}
	}
	// at the root the alias goes on the outermost field
	expand(a.Types[a.Query], func(alias string, s *advert.Sel) *advert.Sel {
		c := *s
		c.Alias = alias
		return &c
	}, 2)
	var out []qcase
	spread := []*advert.Sel{{Raw: "...F"}}
	for _, n1 := range order {
		t1 := a.Types[n1]
		for i := range t1.Fields {
			f1 := &t1.Fields[i]
			body := []*advert.Sel{a.SelectField(f1, f1.Name, 0)}
			def := " fragment F on " + n1 + " { " + a.Print(body) + " }"
			leaf1 := advert.IsLeaf(a.Types[f1.Type.Named().Name])
			for _, n2 := range order {
				kind, ok := "", false
				if n1 == n2 {
					kind, ok = "shared-fragment-same-type", true
				} else {
					var f2 *advert.FieldDef
					for j := range a.Types[n2].Fields {
						if a.Types[n2].Fields[j].Name == f1.Name {
							f2 = &a.Types[n2].Fields[j]
						}
					}
					switch {
					case f2 == nil:
						kind = "shared-fragment-unknown-field"
					case advert.IsLeaf(a.Types[f2.Type.Named().Name]) != leaf1:
						kind = "shared-fragment-leaf-vs-composite"
					default:
						// same name and kind under another type (the arguments may differ): the property does not say
						// whether that is valid, but what validation accepts must execute
						kind, ok = "shared-fragment-same-name-other-type", true
					}
				}
				for _, w1 := range first2(paths[n1]) {
					for _, w2 := range first2(paths[n2]) {
						for _, flip := range []bool{false, true} {
							x, y := w1("a", spread), w2("b", spread)
							rx, ry := w1("a", body), w2("b", body)
							if flip {
								x, y = w2("a", spread), w1("b", spread)
								rx, ry = w2("a", body), w1("b", body)
							}
							out = append(out, qcase{text: "{ " + a.Print([]*advert.Sel{x, y}) + " }" + def, root: []*advert.Sel{rx, ry}, wellFormed: ok, kind: kind,
								lenient: kind == "shared-fragment-same-name-other-type"})
						}
					}
				}
			}
		}
	}
	// the same object type reached through two paths, one composite field selected under the same alias with two
	// different sub-selections (whatever is memoised per field must not be shared between the two selections)
	for _, n := range order {
		t := a.Types[n]
		if len(paths[n]) < 2 {
			continue
		}
		for i := range t.Fields {
			f := &t.Fields[i]
			ft := a.Types[f.Type.Named().Name]
			if ft.Kind != "OBJECT" {
				continue
			}
			all := a.Scalars(ft, 0)
			if len(all) < 3 {
				continue
			}
			s1 := &advert.Sel{Alias: f.Name, Field: f, Sub: all[:2]}
			s2 := &advert.Sel{Alias: f.Name, Field: f, Sub: all[len(all)-2:]}
			for pi, p1 := range paths[n] {
				for _, p2 := range paths[n][pi+1:] {
					for _, pr := range [][2]*advert.Sel{{s1, s2}, {s2, s1}} {
						root := []*advert.Sel{p1("a", []*advert.Sel{pr[0]}), p2("b", []*advert.Sel{pr[1]})}
						out = append(out, qcase{text: "{ " + a.Print(root) + " }", root: root, wellFormed: true, kind: "two-paths-same-alias"})
					}
				}
			}
		}
	}
	// one response key selected twice in one selection set, the first (or the second) occurrence carrying a fragment:
	// the two occurrences merge, nothing selected may get lost
	for _, n := range order {
		t := a.Types[n]
		w := paths[n][0]
		for i := range t.Fields {
			f := &t.Fields[i]
			ft := a.Types[f.Type.Named().Name]
			call := f.Name + ": " + a.Call(f)
			switch ft.Kind {
			case "OBJECT":
				all := a.Scalars(ft, 0)
				if len(all) < 3 {
					continue
				}
				h := len(all) / 2
				def := " fragment F on " + ft.Name + " { " + a.Print(all[:h]) + " }"
				inl := "... on " + ft.Name + " { " + a.Print(all[:h]) + " }"
				rest := a.Print(all[h:])
				root := []*advert.Sel{w("a", []*advert.Sel{{Alias: f.Name, Field: f, Sub: all}})}
				for _, body := range []string{
					call + " { ...F } " + call + " { " + rest + " }",
					call + " { " + rest + " } " + call + " { ...F }",
					call + " { " + inl + " } " + call + " { " + rest + " }",
				} {
					text := "{ " + a.Print([]*advert.Sel{w("a", []*advert.Sel{{Raw: body}})}) + " }"
					if strings.Contains(body, "...F") {
						text += def
					}
					out = append(out, qcase{text: text, root: root, wellFormed: true, kind: "same-key-twice-with-fragment"})
				}
			case "UNION":
				if len(ft.PossibleTypes) < 2 {
					continue
				}
				m1, m2 := ft.PossibleTypes[0].Name, ft.PossibleTypes[1].Name
				s1, s2 := a.Scalars(a.Types[m1], 0), a.Scalars(a.Types[m2], 0)
				on := map[string][]*advert.Sel{m1: s1, m2: s2}
				root := []*advert.Sel{w("a", []*advert.Sel{{Alias: f.Name, Field: f, OnType: on}})}
				body := call + " { ut: __typename ... on " + m1 + " { " + a.Print(s1) + " } } " + call + " { ... on " + m2 + " { " + a.Print(s2) + " } }"
				out = append(out, qcase{text: "{ " + a.Print([]*advert.Sel{w("a", []*advert.Sel{{Raw: body}})}) + " }", root: root, wellFormed: true, kind: "same-key-twice-with-fragment"})
			}
		}
	}
	return out
}

func first2[T any](s []T) []T {
	if len(s) > 2 {
		return s[:2]
	}
	return s
}

func run(rp *explore.Report, tier string) {
	sb := buildFixture()
	var raw []byte
	var err error
	rt.RunDefault(func() { raw, err = introspection.ComputeSchemaJSON(*sb) })
	if err != nil {
		panic(err)
	}
	adv, err := advert.Load(raw)
	if err != nil {
		panic(err)
	}
	schema := buildFixture().MustBuild()
	depth := 2
	if tier == "thorough" {
		depth = 3
	}
	cases := append(generate(adv, depth), sharedFragments(adv)...)
	var k int64
	fail := func(clause, class, item, format string, a ...interface{}) {
		rp.AddViolation(&explore.Violation{Item: item, Signature: "c14/" + clause + "/" + class, Stable: true,
			Failures: []explore.Failure{{Clause: clause, Msg: fmt.Sprintf(format, a...)}}})
	}
	for _, c := range cases {
		k++
		if !rp.Mine(k) {
			continue
		}
		rp.Cases++
		if rp.Cases%97 == 1 {
			rp.AddSample(map[string]interface{}{"query": c.text, "well_formed": c.wellFormed, "kind": c.kind})
		}
		q, perr := graphql.Parse(c.text, nil)
		if perr == nil {
			perr = graphql.PrepareQuery(context.Background(), schema.Query, q.SelectionSet)
		}
		if !c.wellFormed {
			rp.Nontrivial++
			if perr == nil {
				fail("ill-formed-rejected", c.kind, c.text, "validation accepted an ill-formed query (%s)", c.kind)
			}
			continue
		}
		if perr != nil && c.lenient {
			continue
		}
		if perr != nil {
			fail("advertised-is-accepted", c.kind, c.text, "a query built only from advertised fields and types was rejected: %v", perr)
			continue
		}
		rp.Nontrivial++
		for si, sched := range []graphql.WorkScheduler{gqlfix.FIFO{}, gqlfix.LIFO{}, nil} {
			var res interface{}
			var err error
			if sched == nil { // inside a reactive rerunner (Expensive fields are memoised there)
				res, err = gqlfix.ExecReactive(schema, gqlfix.FIFO{}, c.text, nil)
			} else {
				res, err = gqlfix.Exec(context.Background(), schema, sched, c.text, nil)
			}
			if err != nil && strings.Contains(err.Error(), "non-nullable but returned a null value") {
				continue // a resolver broke its own non-null promise: refusing the whole answer is the conforming outcome
			}
			if err != nil {
				fail("accepted-cannot-go-wrong", c.kind, c.text, "execution of an accepted query failed (scheduler %d): %v", si, err)
				continue
			}
			if c.lenient {
				continue // (the reference selection names the first type's field definition)
			}
			if e := adv.ConformObject(adv.Types[adv.Query], c.root, res, "$"); e != "" {
				fail("response-conforms", c.kind, c.text, "response %s does not conform to the advertised schema: %s", gqlfix.JS(res), e)
			}
		}
	}
	rp.AddOutcome(fmt.Sprintf("types=%d cases=%d", len(adv.Types), len(cases)))
}

func init() {
	reg.Register(&reg.Harness{Property: "C14", Name: "c14/advertised", Level: "exploration", Run: run,
		Rule: "fixture of Go shapes (all scalar widths, named scalars, enum, time, bytes, text-marshaler, pointers, slices of values/pointers/enums, nested and value structs, union, NonNullable / ListEntryNonNullable / Expensive / batch methods, NonNullable plain and batch methods (object and scalar pointers) that return nil for some objects, methods with NumParallelInvocations, null objects and lists of nulls, methods with every signature form, arguments incl. input objects) -> introspection JSON. From the JSON alone: every path of composite fields up to depth 2 (thorough 3), ending in all leaves / all fields / each field alone / the same field under two aliases / union fields with fragments for only one member or none (arguments filled from advertised input types), plus at every position the three ill-formedness kinds (unknown field, selection on a leaf, none on a composite), plus one named fragment (each field of each object type) spread at two positions: the same type twice (well-formed) or a second type that lacks the field or has it with the other leaf/composite kind (ill-formed), or has it with the same kind - possibly other argument types - (validation may reject, what it accepts must execute), in both orders; plus one composite field selected under one alias with two different sub-selections at two paths to the same (long-lived) object; plus one response key selected twice in one selection set with a named or inline fragment in the first or the second occurrence (objects and unions). Oracle: ill-formed => rejected; well-formed => accepted, executes without error under FIFO and LIFO schedulers and inside a reactive rerunner, and the response conforms to the advertised types (exact aliases, lists, scalar JSON kinds, enum values, null only where nullable, list entries excepted)"})
}
