package c14

import (
	"context"
	"fmt"
	"strings"

	"github.com/samsarahq/thunder/graphql"
	"github.com/samsarahq/thunder/graphql/schemabuilder"
	"github.com/samsarahq/thunder/reactive"
	"verif/explore"
	"verif/fix/gqlfix"
	"verif/harness/reg"
	"vrt/rt"
)

// A request whose context is cancelled (a timeout middleware, a client that left) at any moment of an execution
// under a reactive rerunner, over a list in which one object occurs twice: the second work unit of an Expensive field
// waits for the first one's cache entry. Whatever Execute returns without an error must still conform: no null for
// a field advertised non-null, no missing field.

type slowObj struct{ Id int64 }

type scfg struct {
	Twice  bool // the same pointer twice in the list (one cache key) / two different objects
	Yields int  // scheduling points inside the resolver (it ignores its context)
	Batch  bool // the slow field next to a batch field
}

func (c scfg) name() string { return fmt.Sprintf("twice=%t yields=%d batch=%t", c.Twice, c.Yields, c.Batch) }

func cancelItem(c scfg) *explore.Item {
	return &explore.Item{Name: c.name(), Bound: -1, MaxSteps: 20000, MaxClock: 20, Body: func(x *explore.Exec) {
		s := schemabuilder.NewSchema()
		a, b := &slowObj{1}, &slowObj{2}
		s.Query().FieldFunc("objs", func() []*slowObj {
			if c.Twice {
				return []*slowObj{a, a}
			}
			return []*slowObj{a, b}
		})
		o := s.Object("slowObj", slowObj{})
		o.FieldFunc("slow", func(o *slowObj) string { // non-null string, ignores cancellation
			for i := 0; i < c.Yields; i++ {
				rt.Yield()
			}
			return "done"
		}, schemabuilder.Expensive)
		o.FieldFunc("req", func(o *slowObj) *slowObj { return o }, schemabuilder.NonNullable, schemabuilder.Expensive)
		s.Mutation().FieldFunc("noop", func() bool { return true })
		schema := s.MustBuild()
		text := `{ objs { id slow req { id } } }`
		q, err := graphql.Parse(text, nil)
		if err == nil {
			err = graphql.PrepareQuery(context.Background(), schema.Query, q.SelectionSet)
		}
		if err != nil {
			x.Fail("harness", "", "prepare: %v", err)
			return
		}
		ctx, cancel := rt.WithCancel(context.Background())
		var res interface{}
		var execErr error
		done := false
		rr := reactive.NewRerunner(ctx, func(ctx context.Context) (interface{}, error) {
			res, execErr = graphql.NewExecutor(graphql.NewImmediateGoroutineScheduler()).Execute(ctx, schema.Query, nil, q)
			done = true
			return nil, nil
		}, 0, false)
		rt.Go(func() { cancel() })
		rt.QuiesceWithin(0)
		rr.Stop()
		cancel()
		if !done {
			x.Outcome("never-ran")
			return
		}
		x.Nontrivial()
		if execErr != nil {
			x.Outcome("error")
			return
		}
		n, _ := gqlfix.Norm(res)
		x.Outcome("answered")
		objs, _ := n.(map[string]interface{})["objs"].([]interface{})
		if len(objs) != 2 {
			x.Fail("conforms", "c14/cancelled/shape", "objs = %s", gqlfix.JS(n))
			return
		}
		for i, e := range objs {
			m, _ := e.(map[string]interface{})
			if sv, ok := m["slow"].(string); !ok || sv != "done" {
				x.Fail("null-only-where-nullable", "c14/cancelled/null-in-non-null-field", "Execute returned no error and objs[%d].slow = %v for a field advertised string! (%s)", i, m["slow"], strings.TrimSpace(gqlfix.JS(n)))
			}
			if r, ok := m["req"].(map[string]interface{}); !ok || r["id"] == nil {
				x.Fail("null-only-where-nullable", "c14/cancelled/null-in-non-null-field", "Execute returned no error and objs[%d].req = %v for a field advertised slowObj! (%s)", i, m["req"], strings.TrimSpace(gqlfix.JS(n)))
			}
		}
	}}
}

func cancelConfigs(tier string) []scfg {
	out := []scfg{{Twice: true, Yields: 1}, {Twice: true, Yields: 2}, {Twice: false, Yields: 1}}
	if tier == "thorough" {
		out = append(out, scfg{Twice: true, Yields: 3}, scfg{Twice: false, Yields: 2})
	}
	return out
}

func runCancel(rp *explore.Report, tier string) {
	for _, c := range cancelConfigs(tier) {
		it := cancelItem(c)
		it.Split = true
		rp.Explore(it)
	}
}

func init() {
	reg.Register(&reg.Harness{Property: "C14", Name: "c14/cancelled-execution", Level: "model_checking", Bounds: [2]int{2, 3}, Run: runCancel,
		Item: func(n string) *explore.Item {
			var c scfg
			fmt.Sscanf(n, "twice=%t yields=%d batch=%t", &c.Twice, &c.Yields, &c.Batch)
			return cancelItem(c)
		},
		Rule: "a query over a list holding one object twice (or two objects) with two Expensive non-null fields, executed under a reactive rerunner with the goroutine work scheduler, while another thread cancels the context; all interleavings within the deviation bound; oracle: Execute returns an error, or an answer in which no field advertised non-null is null or missing"})
}
