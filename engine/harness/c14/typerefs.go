package c14

import (
	"context"
	"encoding/json"
	"fmt"
	"sort"
	"strings"

	"github.com/samsarahq/thunder/graphql/introspection"
	"github.com/samsarahq/thunder/graphql/schemabuilder"
	"verif/explore"
	"verif/harness/reg"
	"vrt/rt"
)

// Every type reference the introspection reports is well formed: NON_NULL never wraps NON_NULL, wrappers have an
// ofType, named kinds have a name that is among the reported types. Schemas: thunder-managed paginated fields over
// value, pointer and scalar element types, lists of lists, NonNullable options.

type trNode struct {
	Id int64
	S  string
}

func typeRefSchemas() map[string]*schemabuilder.Schema {
	out := map[string]*schemabuilder.Schema{}
	mk := func(name string, f func(q *schemabuilder.Object, s *schemabuilder.Schema)) {
		s := schemabuilder.NewSchema()
		f(s.Query(), s)
		s.Object("trNode", trNode{}).Key("id")
		s.Mutation().FieldFunc("noop", func() bool { return true })
		out[name] = s
	}
	mk("paginated-values", func(q *schemabuilder.Object, s *schemabuilder.Schema) {
		q.FieldFunc("page", func() []trNode { return nil }, schemabuilder.Paginated)
	})
	mk("paginated-pointers", func(q *schemabuilder.Object, s *schemabuilder.Schema) {
		q.FieldFunc("page", func() []*trNode { return nil }, schemabuilder.Paginated)
	})
	mk("paginated-with-filter-and-sort", func(q *schemabuilder.Object, s *schemabuilder.Schema) {
		q.FieldFunc("page", func() []trNode { return nil }, schemabuilder.Paginated,
			schemabuilder.FilterField("s", func(n trNode) string { return n.S }),
			schemabuilder.SortField("id", func(ctx context.Context, n trNode) int64 { return n.Id }))
	})
	mk("lists-and-options", func(q *schemabuilder.Object, s *schemabuilder.Schema) {
		q.FieldFunc("a", func() [][]trNode { return nil })
		q.FieldFunc("b", func() []*trNode { return nil }, schemabuilder.NonNullable)
		q.FieldFunc("c", func() *trNode { return nil }, schemabuilder.NonNullable)
		q.FieldFunc("d", func() []*trNode { return nil }, schemabuilder.ListEntryNonNullable)
		q.FieldFunc("e", func() trNode { return trNode{} }, schemabuilder.NonNullable)
		q.FieldFunc("f", func(args struct {
			L  [][]int64
			P  *trInput
			Ls []trInput
		}) bool {
			return true
		})
	})
	return out
}

type trInput struct {
	X int64
	Y []*string
}

func runTypeRefs(rp *explore.Report, tier string) {
	k := int64(0)
	schemas := typeRefSchemas()
	var order []string
	for name := range schemas {
		order = append(order, name)
	}
	sort.Strings(order)
	for _, name := range order {
		sb := schemas[name]
		k++
		if !rp.Mine(k) {
			continue
		}
		rp.Cases++
		rp.Nontrivial++
		var raw []byte
		var err error
		func() {
			defer func() {
				if p := recover(); p != nil {
					err = fmt.Errorf("panic: %v", p)
				}
			}()
			rt.RunDefault(func() { raw, err = introspection.ComputeSchemaJSON(*sb) })
		}()
		bad := func(msg string) {
			rp.AddViolation(&explore.Violation{Item: "schema " + name, Stable: true, Signature: "c14/typeref/" + name,
				Failures: []explore.Failure{{Clause: "introspection-truthful", Msg: msg}}})
		}
		if err != nil {
			bad("introspection failed: " + err.Error())
			continue
		}
		var doc map[string]interface{}
		if err := json.Unmarshal(raw, &doc); err != nil {
			bad("introspection JSON: " + err.Error())
			continue
		}
		types, _ := doc["__schema"].(map[string]interface{})["types"].([]interface{})
		names := map[string]bool{}
		for _, t := range types {
			names[fmt.Sprint(t.(map[string]interface{})["name"])] = true
		}
		var walk func(path string, v interface{})
		checkRef := func(path string, ref map[string]interface{}) {
			for cur, parent := ref, ""; cur != nil; {
				kind := fmt.Sprint(cur["kind"])
				of, _ := cur["ofType"].(map[string]interface{})
				switch kind {
				case "NON_NULL", "LIST":
					if of == nil {
						bad(fmt.Sprintf("%s: %s without ofType", path, kind))
					}
					if kind == "NON_NULL" && parent == "NON_NULL" {
						if strings.HasSuffix(path, "Edge].fields[node].node") {
							// the recorded known finding: the node field of the edge type of a paginated field over values
							rp.AddViolation(&explore.Violation{Item: "schema " + name, Stable: true, Signature: "c14/known/edge-node-type-non-null-twice",
								Failures: []explore.Failure{{Clause: "introspection-truthful", Msg: fmt.Sprintf("%s: NON_NULL wraps NON_NULL (a type written T!!)", path)}}})
						} else {
							bad(fmt.Sprintf("%s: NON_NULL wraps NON_NULL (a type written T!!)", path))
						}
					}
				default:
					if n := fmt.Sprint(cur["name"]); !names[n] {
						bad(fmt.Sprintf("%s: names type %q, which is not among the reported types", path, n))
					}
				}
				parent, cur = kind, of
			}
		}
		walk = func(path string, v interface{}) {
			switch x := v.(type) {
			case map[string]interface{}:
				for key, val := range x {
					if key == "type" {
						if ref, ok := val.(map[string]interface{}); ok {
							checkRef(path+"."+fmt.Sprint(x["name"]), ref)
							continue
						}
					}
					walk(path+"."+key, val)
				}
			case []interface{}:
				for _, e := range x {
					p := path
					if m, ok := e.(map[string]interface{}); ok && m["name"] != nil {
						p = path + "[" + fmt.Sprint(m["name"]) + "]"
					}
					walk(p, e)
				}
			}
		}
		walk("$", doc)
	}
	rp.AddOutcome("typeref-schemas=4")
}

func init() {
	reg.Register(&reg.Harness{Property: "C14", Name: "c14/type-references", Level: "exploration", Run: runTypeRefs,
		Rule: "4 schemas (thunder-managed paginated fields over value / pointer element types with filter and sort fields, lists of lists, NonNullable / ListEntryNonNullable options, input objects): every type reference of every field, argument and input field in the introspection result is well formed (NON_NULL never wraps NON_NULL, wrappers have an ofType, named types are among the reported types)"})
}
