// Package c15: untrusted input never crashes the server; cancellation never blocks.
package c15

import (
	"context"
	"fmt"
	"net/http"
	"net/http/httptest"
	"strings"
	"time"

	"github.com/samsarahq/thunder/graphql"
	"verif/explore"
	"verif/fix/fedfix"
	"verif/fix/gqlfix"
	"verif/harness/reg"
	"vrt/rt"
)

var tokens = []string{"{", "}", "(", ")", ":", "...", "on", "fragment", "F", "query", "mutation", "subscription", "$v", "@skip", "@include", "if", "users", "name", "User", "1", `"s"`, "true", "[", "]", "!", "=", "id", "null"}

// stage runs the whole pipeline on one query text; any panic is a violation.
func pipeline(schema *graphql.Schema, text string, vars map[string]interface{}) (stage string, perr interface{}) {
	stage = "parse"
	defer func() {
		if p := recover(); p != nil {
			perr = p
		}
	}()
	q, err := graphql.Parse(text, vars)
	if err != nil || q == nil || q.SelectionSet == nil {
		return "rejected", nil
	}
	stage = "prepare"
	typ := schema.Query
	if q.Kind == "mutation" {
		typ = schema.Mutation
	}
	if err := graphql.PrepareQuery(context.Background(), typ, q.SelectionSet); err != nil {
		return "rejected", nil
	}
	stage = "execute"
	graphql.NewExecutor(gqlfix.FIFO{}).Execute(context.Background(), typ, nil, q)
	return "executed", nil
}

var constructs = []string{
	`{ users { ... { name } } }`,
	`{ users { ... @include(if: true) { name } } }`,
	`{ ... { count } }`,
	`subscription { users { name } }`,
	`query Q($a: [Int!]! = [1]) @skip(if: true) { count }`,
	`query Q($a: Int = 1, $a: Int = 2) { user(id: $a) { name } }`,
	`{ users { ...F } } fragment F on User { ...F }`,
	`{ users { ...F } } fragment F on User { ...G } fragment G on User { ...F }`,
	`{ users { ...Nope } }`,
	`fragment F on User { name }`,
	`{ users { name } } fragment Unused on User { name }`,
	`{ users { name @skip } }`,
	`{ users { name @skip(if: 1) } }`,
	`{ users { name @skip(if: $undefined) } }`,
	`{ users { name @include(if: "true") } }`,
	`{ users { name @skip(if: true, if: false) } }`,
	`{ users { name @unknown(x: 1) } }`,
	`{ user(id: 1, id: 2) { name } }`,
	`{ user(id: 99999999999999999999) { name } }`,
	`{ user(id: 1e400) { name } }`,
	`{ user(id: -0) { name } }`,
	`{ user(id: {a: 1, a: 2}) { name } }`,
	`{ user(id: [1, [2, [3]]]) { name } }`,
	`{ user(id: $x) { name } }`,
	`{ __typename(x: 1) }`,
	`{ users { __typename { x } } }`,
	`{ a: count a: users { id } }`,
	`{ users { id: name id } }`,
	// one alias for an object field and a scalar field below the top level, in both orders, and through fragments
	`{ users { x: friend { name } x: name } }`,
	`{ users { x: name x: friend { name } } }`,
	`{ users { x: items { id } x: friend { id } } }`,
	`{ users { items { o: owner { id } o: name } } }`,
	`{ users { ...A ...B } } fragment A on User { x: name } fragment B on User { x: friend { id } }`,
	`{ users { ...B ...A } } fragment A on User { x: name } fragment B on User { x: friend { id } }`,
	`{ things { ... on User { x: friend { id } x: age } } }`,
	`{ users { x: friend { id } x: friend } }`,
	`{ things { ... on Nope { id } } }`,
	`{ things { name } }`,
	`{ things { ... on User { ... on Item { id } } } }`,
	`{ things { ...F } } fragment F on Item { ...G } fragment G on User { name }`,
	`{ users { friend { friend { friend { friend { friend { friend { friend { friend { name } } } } } } } } } }`,
	`{ users }`,
	`{ count { x } }`,
	`{ "s" }`,
	`{ users { name } `,
	`query { }`,
	`{}`,
	``,
	`{ users { name } } { count }`,
	`mutation { noop } query { count }`,
	`mutation { nothing }`,
	"{ users { name # comment\n } }",
	`{ users { name, , id } }`,
	"{ users { näme } }",
	`{ user(id: "\u0000") { name } }`,
	`{ user(id: """block""") { name } }`,
	`{ users(first: 1) { name } }`,
	`query ($v: Boolean!) { users @skip(if: $v) { name } }`,
	`query ($v: Boolean = 5) { users @skip(if: $v) { name } }`,
}

var varMaps = []map[string]interface{}{
	nil, {}, {"v": nil}, {"v": true}, {"v": 1.0}, {"v": "s"}, {"v": []interface{}{}}, {"v": map[string]interface{}{}}, {"v": []interface{}{nil, 1.0}},
	{"x": map[string]interface{}{"a": []interface{}{map[string]interface{}{}}}}, {"a": 1.5}, {"a": "1"}, {"undefined": true},
}

func runTokens(rp *explore.Report, tier string) {
	schema := gqlfix.Build(gqlfix.DataSets()[0], gqlfix.Modes{}, nil)
	maxLen := 4
	if tier == "thorough" {
		maxLen = 5
	}
	var k int64
	report := func(text string, vars map[string]interface{}, stage string, p interface{}) {
		cls := fmt.Sprint(p)
		if len(cls) > 60 {
			cls = cls[:60]
		}
		rp.AddViolation(&explore.Violation{Item: fmt.Sprintf("%q vars=%v", text, vars), Stable: true, Signature: "c15/panic/" + stage + "/" + cls,
			Failures: []explore.Failure{{Clause: "never-panics", Msg: fmt.Sprintf("%s panicked on %q: %v", stage, text, p)}}})
	}
	outcomes := map[string]int64{}
	try := func(text string, vars map[string]interface{}) {
		k++
		if !rp.Mine(k) {
			return
		}
		rp.Cases++
		stage, p := pipeline(schema, text, vars)
		if p != nil {
			report(text, vars, stage, p)
			return
		}
		outcomes[stage]++
		if stage != "rejected" {
			rp.Nontrivial++
			if rp.Nontrivial%97 == 1 {
				rp.AddSample(map[string]interface{}{"text": text, "vars": vars, "reached": stage})
			}
		}
	}
	// hand list of constructs graphql-go accepts and thunder may not anticipate, with every variable map
	for _, c := range constructs {
		for _, v := range varMaps {
			try(c, v)
		}
	}
	// fragments of every type condition at every kind of position, selecting fields the enclosing type has, fields only
	// the named type has, unknown fields, and selections of the wrong shape - inline and as named spreads
	conds := []string{"User", "Item", "Thing", "Query", "Nope"}
	positions := []string{"{ users { id %s } }", "{ items { %s } }", "{ things { %s } }", "{ %s count }", "{ user(id: 1) { friend { %s } } }"}
	bodies := []string{"name", "age", "tags", "owner { id }", "items { id }", "count", "nosuch", "age { x }", "items", "__typename", "friend { nosuch }"}
	for _, cond := range conds {
		for _, pos := range positions {
			for _, body := range bodies {
				try(fmt.Sprintf(pos, "... on "+cond+" { "+body+" }"), nil)
				try(fmt.Sprintf(pos, "...F")+" fragment F on "+cond+" { "+body+" }", nil)
				try(fmt.Sprintf(pos, "...F ...G")+" fragment F on "+cond+" { "+body+" } fragment G on User { id }", nil)
			}
		}
	}
	// all token sequences up to maxLen, bare and wrapped so that the interesting ones get past the lexer
	var rec func(prefix []string)
	rec = func(prefix []string) {
		if len(prefix) > 0 {
			s := strings.Join(prefix, " ")
			try(s, varMaps[3])
			try("{ users { "+s+" } }", varMaps[3])
			try("{ "+s+" }", nil)
		}
		if len(prefix) == maxLen {
			return
		}
		for _, t := range tokens {
			rec(append(prefix, t))
		}
	}
	rec(nil)
	for s, n := range outcomes {
		rp.AddOutcome(fmt.Sprintf("%s=%d", s, n))
	}
}

// ---------- step-count growth on bomb families ----------

type family struct {
	name string
	gen  func(d int) string
}

var families = []family{
	{"fragment-spread-bomb", func(d int) string {
		var sb strings.Builder
		sb.WriteString("{ users { ...F0 } }")
		for i := 0; i < d; i++ {
			fmt.Fprintf(&sb, " fragment F%d on User { ...F%d ...F%d }", i, i+1, i+1)
		}
		fmt.Fprintf(&sb, " fragment F%d on User { name }", d)
		return sb.String()
	}},
	{"fragment-bomb-with-fields", func(d int) string {
		var sb strings.Builder
		sb.WriteString("{ users { ...F0 } }")
		for i := 0; i < d; i++ {
			fmt.Fprintf(&sb, " fragment F%d on User { id ...F%d name ...F%d }", i, i+1, i+1)
		}
		fmt.Fprintf(&sb, " fragment F%d on User { age }", d)
		return sb.String()
	}},
	{"repeated-alias", func(d int) string {
		return "{ users { " + strings.Repeat("friend { id } ", d*4) + "} }"
	}},
	{"deep-nesting", func(d int) string {
		return "{ users { " + strings.Repeat("friend { ", d*2) + "id" + strings.Repeat(" }", d*2) + " } }"
	}},
	{"wide-inline-fragments", func(d int) string {
		return "{ users { " + strings.Repeat("... on User { name } ", d*4) + "} }"
	}},
	{"nested-inline-same-alias", func(d int) string {
		s := "id"
		for i := 0; i < d; i++ {
			s = "friend { " + s + " } friend { " + s + " }"
		}
		return "{ users { " + s + " } }"
	}},
}

func steps(schema *graphql.Schema, text string) (n uint64, reached string, p interface{}) {
	before := rt.Ticks()
	reached, p = pipeline(schema, text, nil)
	return rt.Ticks() - before, reached, p
}

func runGrowth(rp *explore.Report, tier string) {
	schema := gqlfix.Build(gqlfix.DataSets()[1], gqlfix.Modes{}, nil)
	for fi, f := range families {
		if !rp.Mine(int64(fi)) {
			continue
		}
		d := 6
		if f.name == "nested-inline-same-alias" {
			d = 4 // the input itself doubles per level: size is the right yardstick, keep it small
		}
		t1, t2 := f.gen(d), f.gen(2*d)
		s1, r1, p1 := steps(schema, t1)
		s2, r2, p2 := steps(schema, t2)
		rp.Cases += 2
		rp.Nontrivial += 2
		rp.AddSample(map[string]interface{}{"family": f.name, "d": d, "size_d": len(t1), "size_2d": len(t2), "steps_d": s1, "steps_2d": s2, "reached": r1 + "/" + r2})
		if p1 != nil || p2 != nil {
			rp.AddViolation(&explore.Violation{Item: f.name, Stable: true, Signature: "c15/panic/growth/" + f.name,
				Failures: []explore.Failure{{Clause: "never-panics", Msg: fmt.Sprintf("panic: %v %v", p1, p2)}}})
			continue
		}
		sizeRatio := float64(len(t2)) / float64(len(t1))
		bound := sizeRatio * sizeRatio * sizeRatio
		ratio := float64(s2) / float64(s1+1)
		rp.AddOutcome(fmt.Sprintf("%s: steps %d -> %d (x%.1f) for size x%.1f", f.name, s1, s2, ratio, sizeRatio))
		if ratio > bound {
			rp.AddViolation(&explore.Violation{Item: fmt.Sprintf("%s d=%d", f.name, d), Stable: true, Signature: "c15/superpolynomial/" + f.name,
				Failures: []explore.Failure{{Clause: "polynomial-time", Msg: fmt.Sprintf("doubling the depth (input size x%.2f, %d -> %d bytes) multiplies the work by %.0f (%d -> %d function entries in graphql); a cubic algorithm stays below x%.0f", sizeRatio, len(t1), len(t2), ratio, s1, s2, bound)}}})
		}
	}
}

// ---------- cancellation as a thread ----------

func httpItem(query string, cancelFirst bool) *explore.Item {
	name := fmt.Sprintf("http cancelFirst=%t query=%s", cancelFirst, query)
	schema := gqlfix.Build(gqlfix.DataSets()[0], gqlfix.Modes{"items": gqlfix.Expensive, "owner": gqlfix.Batch}, nil)
	return &explore.Item{Name: name, Bound: -1, MaxSteps: 20000, Body: func(x *explore.Exec) {
		ctx, cancel := rt.WithCancel(context.Background())
		if cancelFirst {
			cancel()
		}
		h := graphql.HTTPHandler(schema)
		body := fmt.Sprintf(`{"query": %q}`, query)
		req, _ := http.NewRequest("POST", "/graphql", strings.NewReader(body))
		req = req.WithContext(ctx)
		rec := httptest.NewRecorder()
		returned := rt.NewVar(false)
		rt.Go(func() {
			h.ServeHTTP(rec, req)
			returned.Store(true)
		})
		if !cancelFirst {
			rt.Go(func() { cancel() })
		}
		rt.Quiesce()
		if !returned.Peek() {
			x.Fail("returns-on-cancel", "c15/http-blocks-on-cancel", "ServeHTTP never returned although the request context was cancelled")
		}
		x.Outcome("status=%d body=%d", rec.Code, rec.Body.Len())
		x.Nontrivial()
	}, Post: func(x *explore.Exec, res *rt.Result) {
		if res.Deadlock && !x.Failed() {
			x.Fail("returns-on-cancel", "c15/http-blocks-on-cancel", "blocked forever: %v", res.Blocked)
		}
		for _, p := range res.Panics {
			x.Fail("never-panics", "c15/panic/http", "thread %s: %s", p.Thread, p.Value)
		}
	}}
}

// gateway request whose sibling sub-query fails, and gateway request cancelled by a thread
func fedItem(kind string) *explore.Item {
	d := fedfix.DataSets()[0]
	a := fedfix.Assignment{"users": "s1", "user": "s1", "devices": "s2", "everyone": "s1", "admins": "s2", "nobody": "s1", "noUsers": "s1", "boom": "s3"}
	for i, f := range fedfix.ExtraFields {
		a[f] = []string{"s1", "s2"}[i%2]
	}
	query := `{ users { email age device { temp } } devices { tags owner { email } } }`
	if kind == "failing-sibling" {
		query = `{ boom users { email age } devices { tags owner { email } } admins { hiding } }`
	}
	if kind == "failing-sibling-of-a-blocked-one" {
		// one sub-query is blocked on its context when another fails: the failure must cancel it
		a["hang"] = "s4"
		query = `{ boom hang users { email } }`
	}
	return &explore.Item{Name: "federation " + kind, Bound: -1, MaxSteps: 400000, MaxClock: 1000, Body: func(x *explore.Exec) {
		ctx, cancel := rt.WithCancel(context.Background())
		var g *fedfix.Gateway
		var err error
		rt.NoBranch(func() { g, err = fedfix.NewGateway(ctx, d, a, nil) })
		if err != nil {
			x.Fail("harness", "", "gateway: %v", err)
			cancel()
			return
		}
		returned := rt.NewVar(false)
		var qerr error
		rt.Go(func() {
			q, perr := graphql.Parse(query, nil)
			if perr != nil {
				qerr = perr
			} else {
				_, _, qerr = g.Exec.Execute(ctx, q, nil)
			}
			returned.Store(true)
		})
		if kind == "cancelled" {
			rt.Go(func() { cancel() })
		}
		rt.QuiesceWithin(time.Second)
		if !returned.Peek() {
			x.Fail("returns-on-cancel", "c15/gateway-blocks/"+kind, "the gateway request never returned")
		}
		if strings.HasPrefix(kind, "failing-sibling") && returned.Peek() && qerr == nil {
			x.Fail("harness", "", "the failing sub-query did not fail the request")
		}
		x.Outcome("err=%v", qerr != nil)
		x.Nontrivial()
		cancel()
		rt.QuiesceWithin(time.Second)
	}, Post: func(x *explore.Exec, res *rt.Result) {
		if res.Deadlock && !x.Failed() {
			x.Fail("returns-on-cancel", "c15/gateway-blocks/"+kind, "threads blocked forever: %v", res.Blocked)
		}
		for _, p := range res.Panics {
			x.Fail("never-panics", "c15/panic/gateway", "thread %s: %s", p.Thread, p.Value)
		}
	}}
}

func runFed(rp *explore.Report, tier string) {
	for _, kind := range []string{"failing-sibling", "cancelled", "failing-sibling-of-a-blocked-one"} {
		it := fedItem(kind)
		it.Split = true
		rp.Explore(it)
	}
}

func runCancel(rp *explore.Report, tier string) {
	for _, q := range []string{`{ count }`, `{ users { items { owner { name } } } }`} {
		for _, first := range []bool{true, false} {
			it := httpItem(q, first)
			it.Split = true
			rp.Explore(it)
		}
	}
}

func init() {
	reg.Register(&reg.Harness{Property: "C15", Name: "c15/cancel-federation", Level: "model_checking", Bounds: [2]int{1, 2}, Run: runFed,
		Item: func(name string) *explore.Item { return fedItem(strings.TrimPrefix(name, "federation ")) },
		Rule: "part (d), federation: a three-service gateway request in which one sibling sub-query fails (the error group cancels the others, including one that is blocked on its context), and a gateway request cancelled by a thread, under every schedule within the deviation bound (gateway construction runs on the default schedule); oracle: the request returns and no thread stays blocked"})
	reg.Register(&reg.Harness{Property: "C15", Name: "c15/tokens", Level: "model_checking", Run: runTokens,
		Rule: "sequential part (a): every sequence of <=4 (thorough 5) tokens over a 28-token GraphQL alphabet, bare and in two wrappers, plus fragments of 5 type conditions (matching, foreign, union, root, unknown) x 5 positions x 11 bodies (fields of the enclosing type / of the named type only / unknown / wrong shape) inline and as named spreads, plus 59 hand-written constructs (inline fragments without type condition, subscriptions, directive misuse, duplicate args/variables, fragment cycles, numeric overflow, conflicting aliases, wrong fragments under unions, ...) x 13 JSON variable maps, through Parse -> PrepareQuery -> Execute; oracle: an error or a result, never a panic. non-trivial = inputs that pass the parser"})
	reg.Register(&reg.Harness{Property: "C15", Name: "c15/growth", Level: "model_checking", Run: runGrowth,
		Rule: "sequential part (b): six input families (fragment-spread bombs, repeated aliases, deep nesting, wide and nested inline fragments) at depth d and 2d; the number of function entries executed inside package graphql (counted by instrumentation, no wall clock) may grow at most cubically with the input size"})
	reg.Register(&reg.Harness{Property: "C15", Name: "c15/cancel-http", Level: "model_checking", Bounds: [2]int{2, 3}, Run: runCancel,
		Item: func(name string) *explore.Item {
			var first bool
			fmt.Sscanf(name, "http cancelFirst=%t", &first)
			return httpItem(name[strings.Index(name, "query=")+6:], first)
		},
		Rule: "part (d): HTTPHandler.ServeHTTP with a canceller thread (and with an already cancelled context) under every schedule within the deviation bound; oracle: ServeHTTP returns and no thread stays blocked at quiescence"})
}
