package c15

import (
	"context"
	"fmt"
	"os"
	"os/exec"
	"runtime/debug"
	"strconv"
	"strings"

	"github.com/samsarahq/thunder/graphql"
	"verif/explore"
	"verif/fix/gqlfix"
	"verif/harness/reg"
)

// Query text nested very deeply. The parser, validation and execution are recursive; a goroutine stack overflow is
// a fatal error that no recover contains (one request takes the process down). Each probe runs in a child process
// of the harness with a reduced maximal stack (so that unbounded recursion shows at a few hundred thousand levels
// instead of a few million) and reports whether it came back with a result or an error.

func deepText(kind string, depth int) (string, map[string]interface{}) {
	switch kind {
	case "selections": // { users { friend { friend { ... id ... } } } }
		return "{ users " + strings.Repeat("{ friend ", depth) + "{ id }" + strings.Repeat(" }", depth) + " }", nil
	case "unknown-selections": // {a{a{a ... }}}
		return strings.Repeat("{a", depth) + strings.Repeat("}", depth), nil
	case "list-literal": // { user(id: [[[[ ... ]]]]) { id } }
		return "{ user(id: " + strings.Repeat("[", depth) + strings.Repeat("]", depth) + ") { id } }", nil
	case "object-literal":
		return "{ user(id: " + strings.Repeat("{a: ", depth) + "1" + strings.Repeat("}", depth) + ") { id } }", nil
	case "after-comment-lf", "after-comment-cr", "after-comment-crlf": // a comment line in front of the nesting, ended in each of the three ways
		end := map[string]string{"after-comment-lf": "\n", "after-comment-cr": "\r", "after-comment-crlf": "\r\n"}[kind]
		return "# note {{{ " + end + strings.Repeat("{a", depth) + strings.Repeat("}", depth), nil
	case "after-string": // brackets inside a string literal in front of the nesting
		return `{ user(id: "}}}\"}}}") { id } ` + strings.Repeat("a{", depth) + "a" + strings.Repeat("}", depth) + " }", nil
	case "fragment-chain": // every fragment nests 4000 levels and ends in a spread of the next one
		per := 4000
		n := depth / per
		var b strings.Builder
		b.WriteString("{ users { ...F0 } }")
		for i := 0; i < n; i++ {
			b.WriteString(fmt.Sprintf(" fragment F%d on User ", i))
			b.WriteString(strings.Repeat("{ friend ", per))
			if i+1 < n {
				b.WriteString(fmt.Sprintf("{ ...F%d }", i+1))
			} else {
				b.WriteString("{ id }")
			}
			b.WriteString(strings.Repeat(" }", per))
		}
		return b.String(), nil
	case "inline-fragments":
		return "{ users " + strings.Repeat("{ ... on User ", depth) + "{ id }" + strings.Repeat(" }", depth) + " }", nil
	}
	panic(kind)
}

// DeepParseChild is the body of the child process: vharness deep-parse <kind> <depth>.
func DeepParseChild(args []string) {
	depth, _ := strconv.Atoi(args[1])
	debug.SetMaxStack(64 << 20)
	text, vars := deepText(args[0], depth)
	schema := gqlfix.Build(gqlfix.DataSets()[0], gqlfix.Modes{}, nil)
	q, err := graphql.Parse(text, vars)
	if err == nil {
		err = graphql.PrepareQuery(context.Background(), schema.Query, q.SelectionSet)
	}
	fmt.Printf("RETURNED err=%v\n", err != nil)
}

func runDeep(rp *explore.Report, tier string) {
	self, err := os.Executable()
	if err != nil {
		rp.AddOutcome("deep-nesting=not-run")
		return
	}
	depths := []int{1000, 200000}
	if tier == "thorough" {
		depths = append(depths, 1000000)
	}
	var k int64
	for _, kind := range []string{"selections", "unknown-selections", "list-literal", "object-literal", "inline-fragments", "after-comment-lf", "after-comment-cr", "after-comment-crlf", "after-string", "fragment-chain"} {
		for _, depth := range depths {
			k++
			if !rp.Mine(k) {
				continue
			}
			rp.Cases++
			rp.Nontrivial++
			out, err := exec.Command(self, "deep-parse", kind, strconv.Itoa(depth)).CombinedOutput()
			if strings.Contains(string(out), "RETURNED") {
				continue
			}
			first := strings.SplitN(strings.TrimSpace(string(out)), "\n", 3)
			msg := strings.Join(first[:min(len(first), 2)], " | ")
			sig := "c15/process-dies/deep-" + kind
			if kind == "fragment-chain" {
				sig = "c15/known/deep-nesting-through-a-chain-of-fragments"
			}
			rp.AddViolation(&explore.Violation{Item: fmt.Sprintf("%s nested %d levels deep", kind, depth), Stable: true, Signature: sig,
				Failures: []explore.Failure{{Clause: "never-panics", Msg: fmt.Sprintf("parsing and validating the text took the process down (%v): %.300s", err, msg)}}})
		}
	}
	rp.AddOutcome("deep-nesting=run")
}

func init() {
	reg.Register(&reg.Harness{Property: "C15", Name: "c15/deep-nesting", Level: "exploration", Run: runDeep,
		Rule: "query text nested 1000 and 200000 (thorough: 1000000) levels deep - selection sets over a recursive field, unknown selections, list literals, object literals, inline fragments, the nesting placed after a comment line ended by LF / CR / CRLF or after a string holding brackets, and nesting spread over a chain of fragments (the recorded known finding) - parsed and validated in a child process with a 64 MB maximal stack; oracle: the child returns a result or an error (a stack overflow is fatal and cannot be recovered)"})
}
