package c15

import (
	"context"
	"fmt"

	"github.com/samsarahq/thunder/thunderpb"
	"verif/explore"
	"verif/fix/fedfix"
	"verif/harness/reg"
	"vrt/rt"
)

// Malformed requests at a federated service's endpoint (what a peer can put on the wire): the service answers with
// a response or an error, it never panics.
func runFedEnvelopes(rp *explore.Report, tier string) {
	d := fedfix.DataSets()[0]
	a := fedfix.Assignment{}
	for _, r := range fedfix.RootFields {
		a[r] = "s1"
	}
	for _, f := range fedfix.ExtraFields {
		a[f] = "s1"
	}
	dep, err := fedfix.Deploy(d, a)
	if err != nil {
		panic(err)
	}
	srv := dep.Servers["s1"]
	sel := func(name string, args string, sub *thunderpb.SelectionSet) *thunderpb.Selection {
		s := &thunderpb.Selection{Name: name, Alias: name, SelectionSet: sub}
		if args != "" {
			s.Arguments = []byte(args)
		}
		return s
	}
	set := func(s ...*thunderpb.Selection) *thunderpb.SelectionSet { return &thunderpb.SelectionSet{Selections: s} }
	reqs := []struct {
		name string
		r    *thunderpb.ExecuteRequest
	}{
		{"empty request", &thunderpb.ExecuteRequest{}},
		{"empty query", &thunderpb.ExecuteRequest{Query: &thunderpb.Query{}}},
		{"kind only", &thunderpb.ExecuteRequest{Query: &thunderpb.Query{Kind: "query"}}},
		{"unknown kind", &thunderpb.ExecuteRequest{Query: &thunderpb.Query{Kind: "subscription", SelectionSet: set(sel("users", "", set(sel("id", "", nil))))}}},
		{"empty selection set", &thunderpb.ExecuteRequest{Query: &thunderpb.Query{Kind: "query", SelectionSet: &thunderpb.SelectionSet{}}}},
		{"unknown field", &thunderpb.ExecuteRequest{Query: &thunderpb.Query{Kind: "query", SelectionSet: set(sel("nope", "", nil))}}},
		{"object without selections", &thunderpb.ExecuteRequest{Query: &thunderpb.Query{Kind: "query", SelectionSet: set(sel("users", "", nil))}}},
		{"arguments not json", &thunderpb.ExecuteRequest{Query: &thunderpb.Query{Kind: "query", SelectionSet: set(sel("user", "{id:", set(sel("id", "", nil))))}}},
		{"arguments not an object", &thunderpb.ExecuteRequest{Query: &thunderpb.Query{Kind: "query", SelectionSet: set(sel("user", "[1]", set(sel("id", "", nil))))}}},
		{"argument of the wrong kind", &thunderpb.ExecuteRequest{Query: &thunderpb.Query{Kind: "query", SelectionSet: set(sel("user", `{"id": "x"}`, set(sel("id", "", nil))))}}},
		{"fragment without selection set", &thunderpb.ExecuteRequest{Query: &thunderpb.Query{Kind: "query", SelectionSet: &thunderpb.SelectionSet{Fragments: []*thunderpb.Fragment{{On: "Query"}}}}}},
		{"federation field without keys", &thunderpb.ExecuteRequest{Query: &thunderpb.Query{Kind: "query", SelectionSet: set(sel("_federation", "", set(sel("s1_User", "", set(sel("id", "", nil))))))}}},
		{"federation keys of the wrong kind", &thunderpb.ExecuteRequest{Query: &thunderpb.Query{Kind: "query", SelectionSet: set(sel("_federation", "", set(sel("s1_User", `{"keys": [1, "x", null]}`, set(sel("id", "", nil))))))}}},
		{"mutation without mutation selection", &thunderpb.ExecuteRequest{Query: &thunderpb.Query{Kind: "mutation", SelectionSet: set(sel("users", "", set(sel("id", "", nil))))}}},
		{"valid", &thunderpb.ExecuteRequest{Query: &thunderpb.Query{Kind: "query", SelectionSet: set(sel("users", "", set(sel("id", "", nil))))}}},
	}
	for i, rq := range reqs {
		if !rp.Mine(int64(i)) {
			continue
		}
		rp.Cases++
		rp.Nontrivial++
		var perr interface{}
		var err error
		var ok bool
		func() {
			defer func() { perr = recover() }()
			rt.RunDefault(func() {
				resp, e := srv.Execute(context.Background(), rq.r)
				err, ok = e, resp != nil
			})
		}()
		if perr != nil {
			rp.AddViolation(&explore.Violation{Item: "federated service request: " + rq.name, Stable: true, Signature: "c15/panic/federation-envelope",
				Failures: []explore.Failure{{Clause: "never-panics", Msg: fmt.Sprintf("Server.Execute panicked: %.300v", perr)}}})
			continue
		}
		if rq.name == "valid" && (err != nil || !ok) {
			rp.AddViolation(&explore.Violation{Item: "federated service request: " + rq.name, Stable: true, Signature: "c15/harness/federation-envelope",
				Failures: []explore.Failure{{Clause: "harness", Msg: fmt.Sprintf("the valid request failed: %v", err)}}})
		}
	}
	rp.AddOutcome(fmt.Sprintf("federation-envelopes=%d", len(reqs)))
}

func init() {
	reg.Register(&reg.Harness{Property: "C15", Name: "c15/federation-envelopes", Level: "exploration", Run: runFedEnvelopes,
		Rule: "15 malformed protobuf requests at a federated service's Execute endpoint (no query, no kind, unknown kind, empty or missing selection sets, unknown fields, arguments that are not JSON / not an object / of the wrong kind, a fragment without a selection set, federation fields without or with ill-typed keys); oracle: a response or an error, never a panic"})
}
