// Package c16 (Execute level): a failing resolver fails the whole query with one of the failing fields' errors.
package c16

import (
	"context"
	"errors"
	"fmt"
	"sort"
	"strings"

	"github.com/samsarahq/thunder/graphql"
	"verif/explore"
	"verif/fix/gqlfix"
	"verif/fix/qgen"
	"verif/fix/refeval"
	"verif/harness/reg"
)

var F, FA, On, Arg = qgen.F, qgen.FA, qgen.On, qgen.Arg

const secret = "S3CR3T"

type inst struct {
	field string
	key   int64
}

type kcase struct {
	q     *qgen.Query
	modes gqlfix.Modes
	fail  []inst
	kind  string // error | safe | wrapped | panic
}

func (c kcase) name() string {
	var fs []string
	for _, f := range c.fail {
		fs = append(fs, fmt.Sprintf("%s#%d", f.field, f.key))
	}
	return fmt.Sprintf("kind=%s fail=%s modes=%s query=%s", c.kind, strings.Join(fs, "+"), modesName(c.modes), c.q.String())
}

var modeFields = []string{"items", "friend", "score", "owner", "fav", "ack"}

// the configurable fields live on these types (Query.items etc. are different fields)
var fieldType = map[string]string{"items": "User", "friend": "User", "score": "User", "fav": "User", "owner": "Item", "ack": "User"}

func modesName(m gqlfix.Modes) string {
	var parts []string
	for _, f := range modeFields {
		if v, ok := m[f]; ok {
			parts = append(parts, f+"="+v.String())
		}
	}
	if len(parts) == 0 {
		return "plain"
	}
	return strings.Join(parts, ",")
}

func queries() []*qgen.Query {
	return []*qgen.Query{
		{Root: []*qgen.Node{F("users", F("id"), F("items", F("id"), F("owner", F("name"))), F("score"))}},
		{Root: []*qgen.Node{Arg(FA("u", "user", FA("f", "friend", FA("s", "score")), F("items", FA("n", "name"))), "id", int64(1)), F("count")}},
		{Root: []*qgen.Node{F("items", F("owner", F("score"), F("friend", F("id"))))}},
		{Root: []*qgen.Node{F("users", F("fav", On("Item", F("owner", F("id"))), On("User", F("score"))), F("friend", F("items", F("id"))))}},
		// a list with null entries in front of and between the objects (list indices in the error path)
		{Root: []*qgen.Node{F("usersN", F("id"), F("score"), F("friend", F("score")))}},
		// lists handed over by value: non-comparable structs (a slice field) and comparable ones
		{Root: []*qgen.Node{F("itemsV", F("id"), F("owner", F("name"), F("score"))), F("usersV", F("id"), F("score"))}},
		// resolvers whose only result is an error
		{Root: []*qgen.Node{F("users", F("id"), F("ack"), F("friend", FA("a", "ack")))}},
	}
}

// customSafe is an application error type that marks itself client-safe by implementing graphql.SanitizedError.
type customSafe struct{ field string }

func (e customSafe) Error() string          { return "custom failure of " + e.field + " " + secret }
func (e customSafe) SanitizedError() string { return "custom safe text for " + e.field }

func hook(c kcase) *gqlfix.Hooks {
	failing := map[inst]bool{}
	for _, f := range c.fail {
		failing[f] = true
	}
	return &gqlfix.Hooks{Before: func(ctx context.Context, field string, keys []int64) error {
		for _, k := range keys {
			if failing[inst{field, k}] {
				switch c.kind {
				case "error":
					return fmt.Errorf("fail %s %s", field, secret)
				case "safe":
					return graphql.NewSafeError("safe fail %s", field)
				case "wrapped":
					return graphql.WrapAsSafeError(errors.New(secret), "wrapped fail %s", field)
				case "custom":
					return customSafe{field}
				case "panic":
					panic("panic " + field)
				}
			}
		}
		return nil
	}}
}

// acceptable returns the error texts (or prefixes, for panics) the property allows.
func acceptable(d *gqlfix.Data, c kcase) (exact []string, prefixes []string) {
	failing := map[inst]bool{}
	fields := map[string]bool{}
	for _, f := range c.fail {
		failing[f] = true
		fields[f.field] = true
	}
	ev := &refeval.Eval{D: d, Q: c.q, Stop: func(typ, field string, key int64) bool { return fieldType[field] == typ && failing[inst{field, key}] }}
	if _, err := ev.Run(); err != nil {
		panic(err)
	}
	// which failing fields are actually reached?
	reached := map[string]bool{}
	for _, in := range ev.Instances {
		if fieldType[in.Field] == in.Type && failing[inst{in.Field, in.Key}] {
			reached[in.Field] = true
		}
	}
	for _, in := range ev.Instances {
		if !reached[in.Field] || fieldType[in.Field] != in.Type {
			continue
		}
		batchMode := c.modes[in.Field] != gqlfix.Plain && c.modes[in.Field] != gqlfix.Expensive && c.modes[in.Field] != gqlfix.PlainPar2 && c.modes[in.Field] != gqlfix.BatchFallbackOff
		if !failing[inst{in.Field, in.Key}] && !batchMode {
			continue // for a batch field any member of the failing unit may carry the path
		}
		switch c.kind {
		case "error":
			exact = append(exact, fmt.Sprintf("%s: fail %s %s", in.Path, in.Field, secret))
		case "safe":
			exact = append(exact, "safe fail "+in.Field)
		case "wrapped":
			exact = append(exact, "wrapped fail "+in.Field)
		case "custom": // client-safe by its own declaration: handed on as it is, without a path
			exact = append(exact, customSafe{in.Field}.Error())
		case "panic":
			prefixes = append(prefixes, fmt.Sprintf("%s: graphql: panic: panic %s\n", in.Path, in.Field))
		}
	}
	return
}

func check(d *gqlfix.Data, c kcase, res interface{}, err error) (clause, msg string) {
	exact, prefixes := acceptable(d, c)
	if len(exact)+len(prefixes) == 0 {
		// no failing field is reached: the query must succeed
		if err != nil {
			return "unreached-failure", fmt.Sprintf("no failing field is reached, yet Execute failed: %v", err)
		}
		return "", ""
	}
	if err == nil {
		return "fails-whole-query", fmt.Sprintf("a needed resolver fails but Execute returned data %s", gqlfix.JS(res))
	}
	if res != nil {
		return "no-partial-data", fmt.Sprintf("Execute returned both an error and data %s", gqlfix.JS(res))
	}
	text := strings.TrimPrefix(err.Error(), "execute: ")
	for _, e := range exact {
		if text == e {
			return "", ""
		}
	}
	for _, p := range prefixes {
		if strings.HasPrefix(text, p) {
			return "", ""
		}
	}
	sort.Strings(exact)
	return "error-of-a-failing-field", fmt.Sprintf("error %q is none of the failing fields' errors with their response path; acceptable: %v %v", trunc(text, 200), exact, prefixes)
}

func trunc(s string, n int) string {
	if len(s) > n {
		return s[:n] + "…"
	}
	return s
}

func cases(tier string) []kcase {
	d := gqlfix.DataSets()[0]
	var out []kcase
	modeSets := []gqlfix.Modes{{}, {"items": gqlfix.Expensive, "owner": gqlfix.Expensive, "score": gqlfix.Expensive, "friend": gqlfix.Expensive, "fav": gqlfix.Expensive, "ack": gqlfix.Expensive},
		{"items": gqlfix.Batch, "owner": gqlfix.Batch, "score": gqlfix.Batch, "friend": gqlfix.Batch, "fav": gqlfix.Batch, "ack": gqlfix.Batch},
		{"items": gqlfix.Par2, "owner": gqlfix.Expensive, "score": gqlfix.Par2, "friend": gqlfix.BatchFallbackOff, "ack": gqlfix.BatchFallbackOn}}
	for _, q := range queries() {
		ev := &refeval.Eval{D: d, Q: q}
		ev.Run()
		seen := map[inst]bool{}
		var insts []inst
		for _, in := range ev.Instances {
			conf := fieldType[in.Field] == in.Type
			i := inst{in.Field, in.Key}
			if conf && !seen[i] {
				seen[i] = true
				insts = append(insts, i)
			}
		}
		insts = append(insts, inst{"owner", 12345}) // never reached
		for _, m := range modeSets {
			for _, kind := range []string{"error", "safe", "wrapped", "panic", "custom"} {
				for i := range insts {
					out = append(out, kcase{q: q, modes: m, fail: []inst{insts[i]}, kind: kind})
					for j := i + 1; j < len(insts); j++ {
						if tier == "thorough" || (i+j)%3 == 0 {
							out = append(out, kcase{q: q, modes: m, fail: []inst{insts[i], insts[j]}, kind: kind})
						}
					}
				}
			}
		}
	}
	return out
}

func runSeq(rp *explore.Report, tier string) {
	d := gqlfix.DataSets()[0]
	var k int64
	for _, c := range cases(tier) {
		scheds := []graphql.WorkScheduler{gqlfix.FIFO{}, gqlfix.LIFO{}}
		if c.modes["owner"] == gqlfix.Expensive {
			scheds = append(scheds, nil) // inside a reactive rerunner: Expensive fields go through reactive.Cache
		}
		for si, sched := range scheds {
			k++
			if !rp.Mine(k) {
				continue
			}
			rp.Cases++
			rp.Nontrivial++
			schema := gqlfix.Build(d, c.modes, hook(c))
			var res interface{}
			var err error
			if sched == nil {
				res, err = gqlfix.ExecReactive(schema, gqlfix.FIFO{}, c.q.String(), nil)
			} else {
				res, err = gqlfix.Exec(context.Background(), schema, sched, c.q.String(), nil)
			}
			if rp.Cases%1499 == 1 {
				rp.AddSample(map[string]interface{}{"case": c.name(), "error": fmt.Sprint(err)})
			}
			if clause, msg := check(d, c, res, err); clause != "" {
				rp.AddViolation(&explore.Violation{Item: fmt.Sprintf("sched=%d %s", si, c.name()), Stable: true,
					Signature: "c16/" + clause + "/" + c.kind, Failures: []explore.Failure{{Clause: clause, Msg: msg}}})
			}
		}
	}
}

func schedItem(c kcase) *explore.Item {
	d := gqlfix.DataSets()[0]
	schema := gqlfix.Build(d, c.modes, hook(c))
	text := c.q.String()
	return &explore.Item{Name: c.name(), Bound: -1, MaxSteps: 20000, Body: func(x *explore.Exec) {
		res, err := gqlfix.Exec(context.Background(), schema, graphql.NewImmediateGoroutineScheduler(), text, nil)
		if clause, msg := check(d, c, res, err); clause != "" {
			x.Fail(clause, "c16/scheduled/"+clause+"/"+c.kind, "%s", msg)
		}
		if err != nil {
			x.Outcome("%s", trunc(strings.SplitN(err.Error(), "\n", 2)[0], 60))
		}
		x.Nontrivial()
	}}
}

func schedCases(tier string) []kcase {
	var out []kcase
	for i, c := range cases(tier) {
		if len(c.fail) == 2 && len(c.modes) > 0 && (tier == "thorough" && i%5 == 0 || i%23 == 0) {
			out = append(out, c)
		}
	}
	return out
}

func runSched(rp *explore.Report, tier string) {
	for _, c := range schedCases(tier) {
		it := schedItem(c)
		it.Split = true
		rp.Explore(it)
	}
}

func init() {
	reg.Register(&reg.Harness{Property: "C16", Name: "c16/execute-sequential", Level: "model_checking", Run: runSeq,
		Rule: "sequential part: 7 queries (nested objects, lists, lists with null entries, lists handed over by value incl. non-comparable structs, aliases, unions, resolvers whose only result is an error) x every single failing field instance and pairs of them (incl. one that is never reached) x failure kind {error, SafeError, wrapped safe error, an application type implementing SanitizedError, panic} x field modes {plain, expensive, batch, mixed parallel} x FIFO/LIFO schedulers and, for Expensive mode sets, inside a reactive rerunner; oracle: Execute returns (nil, err) and err is exactly `path: message` of a failing reached field instance (response path with aliases and list indices; any member of the unit for batch fields), or the bare message for client-safe errors; no failure when no failing field is reached"})
	reg.Register(&reg.Harness{Property: "C16", Name: "c16/execute-scheduled", Level: "model_checking", Bounds: [2]int{2, 3}, Run: runSched,
		Item: func(name string) *explore.Item {
			for _, c := range cases("thorough") {
				if c.name() == name {
					return schedItem(c)
				}
			}
			panic("unknown item")
		},
		Rule: "scheduled part: pairs of concurrently failing fields under thunder's goroutine scheduler, every interleaving within the deviation bound, same oracle (either failure may be recorded first)"})
}
