package c16

import (
	"context"
	"errors"
	"fmt"
	"strings"

	"github.com/samsarahq/thunder/batch"
	"github.com/samsarahq/thunder/graphql"
	"github.com/samsarahq/thunder/graphql/schemabuilder"
	"verif/explore"
	"verif/fix/gqlfix"
	"verif/harness/reg"
	"vrt/rt"
)

// Failing resolvers behind a thunder-managed paginated field: the sort-field and filter-field resolvers (plain,
// Expensive - resolved in their own goroutines -, batch, batch with fallback) and a field of the listed objects.
// Every failure kind must come back as (nil, error) from Execute - never as a panic that escapes the executor
// (in a free-running server: a process crash).

type pgItem struct {
	Id  int64
	Num int64
	Txt string
}

type pgCase struct {
	where string // sort:<impl> | filter:<impl> | node | own:<variant> | nested:<variant> (the paginated field's own resolver)
	kind  string // error | safe | wrapped | panic
}

func (c pgCase) name() string { return c.where + " kind=" + c.kind }

var pgImpls = []string{"plain", "expensive", "batch", "fallback-off"}

// The ways of registering a paginated field whose own resolver can fail: pagination done by thunder (without and with
// context and arguments), done by the resolver itself (it takes the PaginationArgs and returns the page information),
// and the latter with a thunder-paginated fallback, with either half in use.
var pgOwn = []string{"auto", "args", "manual", "manual-fb-on", "manual-fb-off"}

type pgManualArgs struct {
	Min            *int64
	PaginationArgs schemabuilder.PaginationArgs
}
type pgPlainArgs struct{ Min *int64 }

func pgFail(kind, what string) error {
	switch kind {
	case "error":
		return fmt.Errorf("fail %s %s", what, secret)
	case "safe":
		return graphql.NewSafeError("safe fail %s", what)
	case "wrapped":
		return graphql.WrapAsSafeError(errors.New(secret), "wrapped fail %s", what)
	case "panic":
		panic("panic " + what)
	}
	return nil
}

func pgSchema(c pgCase) *graphql.Schema {
	s := schemabuilder.NewSchema()
	items := []pgItem{{1, 3, "apple"}, {2, 1, "apricot"}, {3, 2, "plum"}}
	failing := func(where string) string {
		if c.where == where {
			return c.kind
		}
		return ""
	}
	num := func(where string) func(ctx context.Context, i pgItem) (int64, error) {
		return func(ctx context.Context, i pgItem) (int64, error) {
			if i.Id == 2 {
				if err := pgFail(failing(where), where); err != nil {
					return 0, err
				}
			}
			return i.Num, nil
		}
	}
	numB := func(where string) func(ctx context.Context, in map[batch.Index]pgItem) (map[batch.Index]int64, error) {
		return func(ctx context.Context, in map[batch.Index]pgItem) (map[batch.Index]int64, error) {
			if err := pgFail(failing(where), where); err != nil {
				return nil, err
			}
			out := map[batch.Index]int64{}
			for k, it := range in {
				out[k] = it.Num
			}
			return out, nil
		}
	}
	txt := func(where string) func(ctx context.Context, i pgItem) (string, error) {
		return func(ctx context.Context, i pgItem) (string, error) {
			if i.Id == 2 {
				if err := pgFail(failing(where), where); err != nil {
					return "", err
				}
			}
			return i.Txt, nil
		}
	}
	txtB := func(where string) func(ctx context.Context, in map[batch.Index]pgItem) (map[batch.Index]string, error) {
		return func(ctx context.Context, in map[batch.Index]pgItem) (map[batch.Index]string, error) {
			if err := pgFail(failing(where), where); err != nil {
				return nil, err
			}
			out := map[batch.Index]string{}
			for k, it := range in {
				out[k] = it.Txt
			}
			return out, nil
		}
	}
	no := func(context.Context) bool { return false }
	s.Query().FieldFunc("list", func() []pgItem { return items },
		schemabuilder.Paginated,
		schemabuilder.SortField("s_plain", num("sort:plain")),
		schemabuilder.SortField("s_expensive", num("sort:expensive"), schemabuilder.Expensive),
		schemabuilder.BatchSortField("s_batch", numB("sort:batch")),
		schemabuilder.BatchSortFieldWithFallback("s_fallback-off", numB("sort:never"), num("sort:fallback-off"), no),
		schemabuilder.FilterField("f_plain", txt("filter:plain")),
		schemabuilder.FilterField("f_expensive", txt("filter:expensive"), schemabuilder.Expensive),
		schemabuilder.BatchFilterField("f_batch", txtB("filter:batch")),
		schemabuilder.BatchFilterFieldWithFallback("f_fallback-off", txtB("filter:never"), txt("filter:fallback-off"), no),
	)
	obj := s.Object("pgItem", pgItem{})
	obj.Key("id")
	for _, level := range []string{"own", "nested"} {
		level := level
		target := s.Query()
		if level == "nested" {
			target = obj
		}
		hit := func(variant string, src []pgItem) error {
			if level == "nested" && src[0].Id != 2 {
				return nil
			}
			return pgFail(failing(level+":"+variant), level+":"+variant)
		}
		info := func() schemabuilder.PaginationInfo {
			return schemabuilder.PaginationInfo{TotalCountFunc: func() int64 { return int64(len(items)) }, Pages: []string{}}
		}
		// the same bodies with and without a source object (root fields have none)
		reg := func(name string, withSrc, noSrc interface{}, opts ...schemabuilder.FieldFuncOption) {
			if level == "nested" {
				target.FieldFunc(name, withSrc, opts...)
			} else {
				target.FieldFunc(name, noSrc, opts...)
			}
		}
		auto := func(src ...pgItem) ([]pgItem, error) { return items, hit("auto", src) }
		reg("p_auto", func(i pgItem) ([]pgItem, error) { return auto(i) }, func() ([]pgItem, error) { return auto() }, schemabuilder.Paginated)
		args := func(src ...pgItem) ([]pgItem, error) { return items, hit("args", src) }
		reg("p_args", func(ctx context.Context, i pgItem, a pgPlainArgs) ([]pgItem, error) { return args(i) },
			func(ctx context.Context, a pgPlainArgs) ([]pgItem, error) { return args() }, schemabuilder.Paginated)
		manual := func(variant string, src ...pgItem) ([]pgItem, schemabuilder.PaginationInfo, schemabuilder.PostProcessOptions, error) {
			return items[:2], info(), schemabuilder.PostProcessOptions{}, hit(variant, src)
		}
		reg("p_manual", func(ctx context.Context, i pgItem, a pgManualArgs) ([]pgItem, schemabuilder.PaginationInfo, schemabuilder.PostProcessOptions, error) {
			return manual("manual", i)
		}, func(ctx context.Context, a pgManualArgs) ([]pgItem, schemabuilder.PaginationInfo, schemabuilder.PostProcessOptions, error) {
			return manual("manual")
		}, schemabuilder.Paginated)
		for _, on := range []bool{true, false} {
			on := on
			variant := "manual-fb-off"
			if on {
				variant = "manual-fb-on"
			}
			fb := func(src ...pgItem) ([]pgItem, error) { return items, hit(variant, src) }
			flag := func(context.Context) bool { return on }
			if level == "nested" {
				target.ManualPaginationWithFallback("p_"+variant,
					func(ctx context.Context, i pgItem, a pgManualArgs) ([]pgItem, schemabuilder.PaginationInfo, schemabuilder.PostProcessOptions, error) {
						return manual(variant, i)
					},
					func(ctx context.Context, i pgItem, a pgPlainArgs) ([]pgItem, error) { return fb(i) }, flag, schemabuilder.Paginated)
			} else {
				target.ManualPaginationWithFallback("p_"+variant,
					func(ctx context.Context, a pgManualArgs) ([]pgItem, schemabuilder.PaginationInfo, schemabuilder.PostProcessOptions, error) {
						return manual(variant)
					},
					func(ctx context.Context, a pgPlainArgs) ([]pgItem, error) { return fb() }, flag, schemabuilder.Paginated)
			}
		}
	}
	obj.FieldFunc("label", func(ctx context.Context, i pgItem) (string, error) {
		if i.Id == 2 {
			if err := pgFail(failing("node"), "node"); err != nil {
				return "", err
			}
		}
		return i.Txt, nil
	})
	s.Mutation().FieldFunc("noop", func() bool { return true })
	return s.MustBuild()
}

func pgQuery(c pgCase) string {
	parts := strings.SplitN(c.where, ":", 2)
	switch parts[0] {
	case "sort":
		return fmt.Sprintf(`{ list(first: 3, sortBy: "s_%s") { totalCount edges { node { id label } } } }`, parts[1])
	case "filter":
		return fmt.Sprintf(`{ list(first: 3, filterText: "ap", filterTextFields: ["f_%s"]) { totalCount edges { node { id label } } } }`, parts[1])
	case "own":
		return fmt.Sprintf(`{ l: p_%s(first: 2) { totalCount edges { node { id label } } } }`, parts[1])
	case "nested":
		return fmt.Sprintf(`{ list(first: 3) { edges { node { id l: p_%s(first: 2) { totalCount edges { node { id } } } } } } }`, parts[1])
	}
	return `{ list(first: 3) { edges { node { id label } } } }`
}

func runPaginated(rp *explore.Report, tier string) {
	var cases []pgCase
	for _, kind := range []string{"error", "safe", "wrapped", "panic"} {
		for _, impl := range pgImpls {
			cases = append(cases, pgCase{"sort:" + impl, kind}, pgCase{"filter:" + impl, kind})
		}
		cases = append(cases, pgCase{"node", kind})
		for _, v := range pgOwn {
			cases = append(cases, pgCase{"own:" + v, kind}, pgCase{"nested:" + v, kind})
		}
	}
	var k int64
	for _, c := range cases {
		for si, sched := range []graphql.WorkScheduler{gqlfix.FIFO{}, nil} {
			k++
			if !rp.Mine(k) {
				continue
			}
			rp.Cases++
			rp.Nontrivial++
			schema := pgSchema(c)
			var res interface{}
			var err error
			var escaped interface{}
			func() {
				defer func() { escaped = recover() }()
				rt.RunDefault(func() {
					if sched == nil {
						sched = graphql.NewImmediateGoroutineScheduler()
					}
					res, err = gqlfix.Exec(context.Background(), schema, sched, pgQuery(c), nil)
				})
			}()
			item := fmt.Sprintf("sched=%d %s query=%s", si, c.name(), pgQuery(c))
			fail := func(clause, msg string) {
				rp.AddViolation(&explore.Violation{Item: item, Stable: true, Signature: "c16/paginated/" + clause + "/" + c.where + "/" + c.kind,
					Failures: []explore.Failure{{Clause: clause, Msg: msg}}})
			}
			if rp.Cases%7 == 1 {
				rp.AddSample(map[string]interface{}{"case": c.name(), "error": fmt.Sprint(err)})
			}
			switch {
			case escaped != nil:
				fail("failure-is-an-error", fmt.Sprintf("the failure escaped the executor as a panic (a free-running server dies): %v", escaped))
			case err == nil:
				fail("failing-resolver-fails-query", fmt.Sprintf("a resolver failed (%s) but Execute returned data %s", c.kind, gqlfix.JS(res)))
			case strings.HasPrefix(err.Error(), "PANIC"):
				fail("failure-is-an-error", "Execute panicked: "+err.Error())
			case res != nil:
				fail("no-partial-data", fmt.Sprintf("Execute returned both an error (%v) and data %s", err, gqlfix.JS(res)))
			case (c.kind == "safe" || c.kind == "wrapped") && strings.Contains(err.Error(), secret):
				fail("safe-error-text", fmt.Sprintf("the client-safe error carries the internal text: %v", err))
			}
		}
	}
	rp.AddOutcome(fmt.Sprintf("paginated-cases=%d", len(cases)))
}

func init() {
	reg.Register(&reg.Harness{Property: "C16", Name: "c16/paginated-failures", Level: "model_checking", Run: runPaginated,
		Rule: "a thunder-managed paginated field whose sort-field or filter-field resolver (plain, Expensive, batch, batch with fallback in use) or a field of the listed objects fails, and a paginated field (at the root and under a list) whose own resolver fails, registered as {thunder-paginated without / with context and arguments, paginating itself, paginating itself with a thunder-paginated fallback with either half in use} with {error, SafeError, wrapped safe error, panic}, under the sequential and the goroutine work scheduler (default schedule); oracle: Execute returns (nil, err), the failure never escapes the executor as a panic, safe errors do not carry internal text"})
}
