package c16

import (
	"context"
	"errors"
	"fmt"
	"strings"

	"github.com/samsarahq/thunder/batch"
	"github.com/samsarahq/thunder/graphql"
	"github.com/samsarahq/thunder/graphql/schemabuilder"
	"verif/explore"
	"verif/fix/gqlfix"
	"verif/harness/reg"
	"vrt/rt"
)

// Failing resolvers behind a thunder-managed paginated field: the sort-field and filter-field resolvers (plain,
// Expensive - resolved in their own goroutines -, batch, batch with fallback) and a field of the listed objects.
// Every failure kind must come back as (nil, error) from Execute - never as a panic that escapes the executor
// (in a free-running server: a process crash).

type pgItem struct {
	Id  int64
	Num int64
	Txt string
}

type pgCase struct {
	where string // sort:<impl> | filter:<impl> | node
	kind  string // error | safe | wrapped | panic
}

func (c pgCase) name() string { return c.where + " kind=" + c.kind }

var pgImpls = []string{"plain", "expensive", "batch", "fallback-off"}

func pgFail(kind, what string) error {
	switch kind {
	case "error":
		return fmt.Errorf("fail %s %s", what, secret)
	case "safe":
		return graphql.NewSafeError("safe fail %s", what)
	case "wrapped":
		return graphql.WrapAsSafeError(errors.New(secret), "wrapped fail %s", what)
	case "panic":
		panic("panic " + what)
	}
	return nil
}

func pgSchema(c pgCase) *graphql.Schema {
	s := schemabuilder.NewSchema()
	items := []pgItem{{1, 3, "apple"}, {2, 1, "apricot"}, {3, 2, "plum"}}
	failing := func(where string) string {
		if c.where == where {
			return c.kind
		}
		return ""
	}
	num := func(where string) func(ctx context.Context, i pgItem) (int64, error) {
		return func(ctx context.Context, i pgItem) (int64, error) {
			if i.Id == 2 {
				if err := pgFail(failing(where), where); err != nil {
					return 0, err
				}
			}
			return i.Num, nil
		}
	}
	numB := func(where string) func(ctx context.Context, in map[batch.Index]pgItem) (map[batch.Index]int64, error) {
		return func(ctx context.Context, in map[batch.Index]pgItem) (map[batch.Index]int64, error) {
			if err := pgFail(failing(where), where); err != nil {
				return nil, err
			}
			out := map[batch.Index]int64{}
			for k, it := range in {
				out[k] = it.Num
			}
			return out, nil
		}
	}
	txt := func(where string) func(ctx context.Context, i pgItem) (string, error) {
		return func(ctx context.Context, i pgItem) (string, error) {
			if i.Id == 2 {
				if err := pgFail(failing(where), where); err != nil {
					return "", err
				}
			}
			return i.Txt, nil
		}
	}
	txtB := func(where string) func(ctx context.Context, in map[batch.Index]pgItem) (map[batch.Index]string, error) {
		return func(ctx context.Context, in map[batch.Index]pgItem) (map[batch.Index]string, error) {
			if err := pgFail(failing(where), where); err != nil {
				return nil, err
			}
			out := map[batch.Index]string{}
			for k, it := range in {
				out[k] = it.Txt
			}
			return out, nil
		}
	}
	no := func(context.Context) bool { return false }
	s.Query().FieldFunc("list", func() []pgItem { return items },
		schemabuilder.Paginated,
		schemabuilder.SortField("s_plain", num("sort:plain")),
		schemabuilder.SortField("s_expensive", num("sort:expensive"), schemabuilder.Expensive),
		schemabuilder.BatchSortField("s_batch", numB("sort:batch")),
		schemabuilder.BatchSortFieldWithFallback("s_fallback-off", numB("sort:never"), num("sort:fallback-off"), no),
		schemabuilder.FilterField("f_plain", txt("filter:plain")),
		schemabuilder.FilterField("f_expensive", txt("filter:expensive"), schemabuilder.Expensive),
		schemabuilder.BatchFilterField("f_batch", txtB("filter:batch")),
		schemabuilder.BatchFilterFieldWithFallback("f_fallback-off", txtB("filter:never"), txt("filter:fallback-off"), no),
	)
	obj := s.Object("pgItem", pgItem{})
	obj.Key("id")
	obj.FieldFunc("label", func(ctx context.Context, i pgItem) (string, error) {
		if i.Id == 2 {
			if err := pgFail(failing("node"), "node"); err != nil {
				return "", err
			}
		}
		return i.Txt, nil
	})
	s.Mutation().FieldFunc("noop", func() bool { return true })
	return s.MustBuild()
}

func pgQuery(c pgCase) string {
	parts := strings.SplitN(c.where, ":", 2)
	switch parts[0] {
	case "sort":
		return fmt.Sprintf(`{ list(first: 3, sortBy: "s_%s") { totalCount edges { node { id label } } } }`, parts[1])
	case "filter":
		return fmt.Sprintf(`{ list(first: 3, filterText: "ap", filterTextFields: ["f_%s"]) { totalCount edges { node { id label } } } }`, parts[1])
	}
	return `{ list(first: 3) { edges { node { id label } } } }`
}

func runPaginated(rp *explore.Report, tier string) {
	var cases []pgCase
	for _, kind := range []string{"error", "safe", "wrapped", "panic"} {
		for _, impl := range pgImpls {
			cases = append(cases, pgCase{"sort:" + impl, kind}, pgCase{"filter:" + impl, kind})
		}
		cases = append(cases, pgCase{"node", kind})
	}
	var k int64
	for _, c := range cases {
		for si, sched := range []graphql.WorkScheduler{gqlfix.FIFO{}, nil} {
			k++
			if !rp.Mine(k) {
				continue
			}
			rp.Cases++
			rp.Nontrivial++
			schema := pgSchema(c)
			var res interface{}
			var err error
			var escaped interface{}
			func() {
				defer func() { escaped = recover() }()
				rt.RunDefault(func() {
					if sched == nil {
						sched = graphql.NewImmediateGoroutineScheduler()
					}
					res, err = gqlfix.Exec(context.Background(), schema, sched, pgQuery(c), nil)
				})
			}()
			item := fmt.Sprintf("sched=%d %s query=%s", si, c.name(), pgQuery(c))
			fail := func(clause, msg string) {
				rp.AddViolation(&explore.Violation{Item: item, Stable: true, Signature: "c16/paginated/" + clause + "/" + c.where + "/" + c.kind,
					Failures: []explore.Failure{{Clause: clause, Msg: msg}}})
			}
			if rp.Cases%7 == 1 {
				rp.AddSample(map[string]interface{}{"case": c.name(), "error": fmt.Sprint(err)})
			}
			switch {
			case escaped != nil:
				fail("failure-is-an-error", fmt.Sprintf("the failure escaped the executor as a panic (a free-running server dies): %v", escaped))
			case err == nil:
				fail("failing-resolver-fails-query", fmt.Sprintf("a resolver failed (%s) but Execute returned data %s", c.kind, gqlfix.JS(res)))
			case strings.HasPrefix(err.Error(), "PANIC"):
				fail("failure-is-an-error", "Execute panicked: "+err.Error())
			case res != nil:
				fail("no-partial-data", fmt.Sprintf("Execute returned both an error (%v) and data %s", err, gqlfix.JS(res)))
			case (c.kind == "safe" || c.kind == "wrapped") && strings.Contains(err.Error(), secret):
				fail("safe-error-text", fmt.Sprintf("the client-safe error carries the internal text: %v", err))
			}
		}
	}
	rp.AddOutcome(fmt.Sprintf("paginated-cases=%d", len(cases)))
}

func init() {
	reg.Register(&reg.Harness{Property: "C16", Name: "c16/paginated-failures", Level: "model_checking", Run: runPaginated,
		Rule: "a thunder-managed paginated field whose sort-field or filter-field resolver (plain, Expensive, batch, batch with fallback in use) or a field of the listed objects fails with {error, SafeError, wrapped safe error, panic}, under the sequential and the goroutine work scheduler (default schedule); oracle: Execute returns (nil, err), the failure never escapes the executor as a panic, safe errors do not carry internal text"})
}
