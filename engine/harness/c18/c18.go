// Package c18: arguments reach resolvers exactly as sent, by literal or by variable.
package c18

import (
	"context"
	"encoding/base64"
	"encoding/json"
	"errors"
	"fmt"
	"math"
	"reflect"
	"strconv"
	"strings"
	"time"

	"github.com/samsarahq/thunder/graphql"
	"github.com/samsarahq/thunder/graphql/schemabuilder"
	"verif/explore"
	"verif/fix/gqlfix"
	"verif/harness/reg"
)

type MyStr string
type MyInt int32
type Color int32

// Upper is a text-unmarshaler argument type.
type Upper struct{ S string }

func (u *Upper) UnmarshalText(b []byte) error {
	if len(b) > 0 && b[0] == '!' {
		return errors.New("bad upper")
	}
	u.S = strings.ToUpper(string(b))
	return nil
}

type Inner struct {
	A int64
	B *string
	C []int32
}

// Rec refers to itself, with fields declared before and after the self-reference
type Rec struct {
	Value int64
	And   *Rec
	Label string
	Tail  *int64
}

type Outer struct {
	X   Inner
	Y   *Inner
	Zs  []Inner
	Opt int64 `graphql:",optional"`
}

// Loose is an input object every field of which may be left out; Holder requires one.
type Loose struct {
	P *int64
	Q *string
	R int64 `graphql:",optional"`
}

type Holder struct {
	L  Loose
	Ls []Loose
}

type ListsF struct {
	Ids []int64
	X   *int64
}

type sink struct {
	calls int
	last  interface{}
}

// val is one value of an argument type in its three transports.
type val struct {
	lit  string      // GraphQL literal
	js   interface{} // JSON value for a variable
	want interface{} // Go value the resolver must see (of the field's type)
}

type argType struct {
	name    string
	gql     string // type name used in variable declarations
	vals    []val
	wrong   []val // values of a wrong JSON kind (want unused)
	nilable bool  // pointer / optional: omitted arrives as zero
	zero    interface{}
}

type fixture struct {
	schema *graphql.Schema
	sink   *sink
	types  []argType
}

func echo[T any](q *schemabuilder.Object, s *sink, name string) {
	q.FieldFunc("echo_"+name, func(args struct{ V T }) bool {
		s.calls++
		s.last = args.V
		return true
	})
}

func echoOpt[T any](q *schemabuilder.Object, s *sink, name string) {
	q.FieldFunc("echo_"+name, func(args struct {
		V T `graphql:",optional"`
	}) bool {
		s.calls++
		s.last = args.V
		return true
	})
}

func q(s string) string { b, _ := json.Marshal(s); return string(b) }

func ints(min, max float64) []val {
	var out []val
	for _, v := range []float64{0, 1, -1, 7, min, max, min + 1, max - 1} {
		if v < min || v > max {
			continue
		}
		out = append(out, val{lit: fmt.Sprintf("%.0f", v), js: v})
	}
	return out
}

func conv[T any](vs []val, f func(float64) T) []val {
	for i := range vs {
		vs[i].want = f(vs[i].js.(float64))
	}
	return vs
}

func ptrOf[T any](v T) *T { return &v }

func ptrVals[T any](vs []val) []val {
	out := make([]val, len(vs))
	for i, v := range vs {
		out[i] = val{v.lit, v.js, ptrOf(v.want.(T))}
	}
	return out
}

func listVals[T any](vs []val) []val {
	var out []val
	out = append(out, val{"[]", []interface{}{}, []T{}})
	if len(vs) > 0 {
		out = append(out, val{"[" + vs[0].lit + "]", []interface{}{vs[0].js}, []T{vs[0].want.(T)}})
	}
	if len(vs) > 2 {
		out = append(out, val{"[" + vs[1].lit + ", " + vs[2].lit + ", " + vs[1].lit + "]", []interface{}{vs[1].js, vs[2].js, vs[1].js}, []T{vs[1].want.(T), vs[2].want.(T), vs[1].want.(T)}})
	}
	return out
}

const big = float64(1 << 53)

func build() *fixture {
	fx := &fixture{sink: &sink{}}
	s := schemabuilder.NewSchema()
	s.Enum(Color(0), map[string]Color{"RED": 1, "GREEN": 2, "BLUE": 3})
	qo := s.Query()
	s.Mutation().FieldFunc("noop", func() bool { return true })
	sk := fx.sink

	num := []val{{"1", 1.0, nil}}
	str := []val{{`"a"`, "a", nil}}
	boolv := []val{{"true", true, nil}}
	obj := []val{{`{a: 1}`, map[string]interface{}{"a": 1.0}, nil}}
	lst := []val{{`[1]`, []interface{}{1.0}, nil}}
	nonNum := append(append(append([]val{}, str...), boolv...), append(obj, lst...)...)
	nonStr := append(append(append([]val{}, num...), boolv...), append(obj, lst...)...)

	// numbers that are no value of an integer type: a fraction, and the neighbours of the type's range
	outOf := func(lo, hi float64) []val {
		out := append([]val{}, nonNum...)
		for _, f := range []float64{1.5, -0.5, lo - 1, hi + 1, hi + 257, 1e300} {
			if f >= lo && f <= hi && f == math.Trunc(f) {
				continue
			}
			lit := strconv.FormatFloat(f, 'f', -1, 64)
			out = append(out, val{lit, f, nil})
		}
		return out
	}
	add := func(t argType) { fx.types = append(fx.types, t) }
	qo.FieldFunc("echo_lists", func(args struct {
		Ids    []int64
		Opt    []*int64
		F      ListsF
		Nested [][]int64
	}) bool {
		sk.calls++
		sk.last = []interface{}{args.Ids, args.Opt, args.F.Ids, args.F.X, args.Nested}
		return true
	})
	qo.FieldFunc("echo_multi", func(args struct {
		A *int64
		B *int64
		S *string
	}) bool {
		sk.calls++
		sk.last = []interface{}{args.A, args.B, args.S}
		return true
	})

	// integers of every width
	echo[int](qo, sk, "int")
	add(argType{name: "int", gql: "Int", vals: conv(ints(-big, big), func(f float64) int { return int(f) }), wrong: outOf(-9.3e18, 9.3e18)})
	echo[int8](qo, sk, "int8")
	add(argType{name: "int8", gql: "Int", vals: conv(ints(math.MinInt8, math.MaxInt8), func(f float64) int8 { return int8(f) }), wrong: outOf(math.MinInt8, math.MaxInt8)})
	echo[int16](qo, sk, "int16")
	add(argType{name: "int16", gql: "Int", vals: conv(ints(math.MinInt16, math.MaxInt16), func(f float64) int16 { return int16(f) }), wrong: outOf(math.MinInt16, math.MaxInt16)})
	echo[int32](qo, sk, "int32")
	add(argType{name: "int32", gql: "Int", vals: conv(ints(math.MinInt32, math.MaxInt32), func(f float64) int32 { return int32(f) }), wrong: outOf(math.MinInt32, math.MaxInt32)})
	echo[int64](qo, sk, "int64")
	add(argType{name: "int64", gql: "Int", vals: conv(ints(-big, big), func(f float64) int64 { return int64(f) }), wrong: outOf(-9.3e18, 9.3e18)})
	echo[uint](qo, sk, "uint")
	add(argType{name: "uint", gql: "Int", vals: conv(ints(0, big), func(f float64) uint { return uint(f) }), wrong: outOf(0, 1.9e19)})
	echo[uint8](qo, sk, "uint8")
	add(argType{name: "uint8", gql: "Int", vals: conv(ints(0, math.MaxUint8), func(f float64) uint8 { return uint8(f) }), wrong: outOf(0, math.MaxUint8)})
	echo[uint16](qo, sk, "uint16")
	add(argType{name: "uint16", gql: "Int", vals: conv(ints(0, math.MaxUint16), func(f float64) uint16 { return uint16(f) }), wrong: outOf(0, math.MaxUint16)})
	echo[uint32](qo, sk, "uint32")
	add(argType{name: "uint32", gql: "Int", vals: conv(ints(0, math.MaxUint32), func(f float64) uint32 { return uint32(f) }), wrong: outOf(0, math.MaxUint32)})
	echo[uint64](qo, sk, "uint64")
	add(argType{name: "uint64", gql: "Int", vals: conv(ints(0, big), func(f float64) uint64 { return uint64(f) }), wrong: outOf(0, 1.9e19)})
	echo[MyInt](qo, sk, "myint")
	add(argType{name: "myint", gql: "Int", vals: conv(ints(math.MinInt32, math.MaxInt32), func(f float64) MyInt { return MyInt(f) }), wrong: outOf(math.MinInt32, math.MaxInt32)})

	// floats
	f64 := []val{{"0", 0.0, 0.0}, {"1.5", 1.5, 1.5}, {"-2.25", -2.25, -2.25}, {"1e10", 1e10, 1e10}, {"3", 3.0, 3.0}, {"0.1", 0.1, 0.1}}
	echo[float64](qo, sk, "float64")
	add(argType{name: "float64", gql: "Float", vals: f64, wrong: nonNum})
	f32 := []val{{"0", 0.0, float32(0)}, {"1.5", 1.5, float32(1.5)}, {"-2.25", -2.25, float32(-2.25)}, {"16777216", 16777216.0, float32(16777216)}}
	echo[float32](qo, sk, "float32")
	add(argType{name: "float32", gql: "Float", vals: f32, wrong: nonNum})

	// bool, strings
	echo[bool](qo, sk, "bool")
	add(argType{name: "bool", gql: "Boolean", vals: []val{{"true", true, true}, {"false", false, false}}, wrong: append(append([]val{}, num...), append(str, obj...)...)})
	strs := []string{"", "a", "hello world", "é\"\\\n\t{}[]$", "null", "true", "1"}
	var sv, msv, upv []val
	for _, x := range strs {
		sv = append(sv, val{q(x), x, x})
		msv = append(msv, val{q(x), x, MyStr(x)})
		upv = append(upv, val{q(x), x, Upper{strings.ToUpper(x)}})
	}
	echo[string](qo, sk, "string")
	add(argType{name: "string", gql: "String", vals: sv, wrong: nonStr})
	echo[MyStr](qo, sk, "mystr")
	add(argType{name: "mystr", gql: "String", vals: msv, wrong: nonStr})
	echo[Upper](qo, sk, "upper")
	add(argType{name: "upper", gql: "String", vals: upv, wrong: append(append([]val{}, nonStr...), val{`"!x"`, "!x", nil})})

	// enum
	echo[Color](qo, sk, "color")
	add(argType{name: "color", gql: "Color", vals: []val{{"RED", "RED", Color(1)}, {"GREEN", "GREEN", Color(2)}, {"BLUE", "BLUE", Color(3)}},
		wrong: append(append([]val{}, num...), val{"PINK", "PINK", nil}, val{`{a: 1}`, map[string]interface{}{"a": 1.0}, nil})})

	// bytes, time
	var bv []val
	for _, b := range [][]byte{{}, {0, 255, 1}, []byte("thunder")} {
		e := base64.StdEncoding.EncodeToString(b)
		bv = append(bv, val{q(e), e, b})
	}
	echo[[]byte](qo, sk, "bytes")
	add(argType{name: "bytes", gql: "String", vals: bv, wrong: append(append([]val{}, nonStr...), val{`"***"`, "***", nil})})
	var tv []val
	for _, ts := range []string{"2020-01-02T03:04:05Z", "1999-12-31T23:59:59+02:00", "2038-01-19T03:14:08.5Z"} {
		t, err := time.Parse(time.RFC3339, ts)
		if err != nil {
			panic(err)
		}
		tv = append(tv, val{q(ts), ts, t})
	}
	echo[time.Time](qo, sk, "time")
	add(argType{name: "time", gql: "String", vals: tv, wrong: append(append([]val{}, nonStr...), val{`"yesterday"`, "yesterday", nil})})

	// pointers (optional by nullability) and optional-tagged
	i64 := conv(ints(-big, big), func(f float64) int64 { return int64(f) })
	echo[*int64](qo, sk, "pint64")
	add(argType{name: "pint64", gql: "Int", vals: ptrVals[int64](i64), wrong: nonNum, nilable: true, zero: (*int64)(nil)})
	echo[*string](qo, sk, "pstring")
	add(argType{name: "pstring", gql: "String", vals: ptrVals[string](sv), wrong: nonStr, nilable: true, zero: (*string)(nil)})
	echo[*bool](qo, sk, "pbool")
	add(argType{name: "pbool", gql: "Boolean", vals: ptrVals[bool]([]val{{"true", true, true}, {"false", false, false}}), wrong: num, nilable: true, zero: (*bool)(nil)})
	echo[*Color](qo, sk, "pcolor")
	add(argType{name: "pcolor", gql: "Color", vals: ptrVals[Color]([]val{{"RED", "RED", Color(1)}, {"BLUE", "BLUE", Color(3)}}), wrong: num, nilable: true, zero: (*Color)(nil)})
	echo[*float64](qo, sk, "pfloat64")
	add(argType{name: "pfloat64", gql: "Float", vals: ptrVals[float64](f64), wrong: nonNum, nilable: true, zero: (*float64)(nil)})
	echo[*time.Time](qo, sk, "ptime")
	add(argType{name: "ptime", gql: "String", vals: ptrVals[time.Time](tv), wrong: nonStr, nilable: true, zero: (*time.Time)(nil)})
	echoOpt[int64](qo, sk, "oint64")
	add(argType{name: "oint64", gql: "Int", vals: i64, wrong: nonNum, nilable: true, zero: int64(0)})
	echoOpt[string](qo, sk, "ostring")
	add(argType{name: "ostring", gql: "String", vals: sv, wrong: nonStr, nilable: true, zero: ""})
	echoOpt[Color](qo, sk, "ocolor")
	add(argType{name: "ocolor", gql: "Color", vals: []val{{"GREEN", "GREEN", Color(2)}}, wrong: num, nilable: true, zero: Color(0)})

	// lists
	echo[[]int64](qo, sk, "lint64")
	add(argType{name: "lint64", gql: "[Int!]", vals: listVals[int64](i64), wrong: append(append([]val{}, num...), append(str, val{`["a"]`, []interface{}{"a"}, nil})...)})
	echo[[]string](qo, sk, "lstring")
	add(argType{name: "lstring", gql: "[String!]", vals: listVals[string](sv), wrong: append(append([]val{}, str...), val{`[1]`, []interface{}{1.0}, nil})})
	echo[[]Color](qo, sk, "lcolor")
	add(argType{name: "lcolor", gql: "[Color!]", vals: listVals[Color]([]val{{"RED", "RED", Color(1)}, {"GREEN", "GREEN", Color(2)}, {"BLUE", "BLUE", Color(3)}}), wrong: str})
	pi := ptrVals[int64](i64)
	lp := listVals[*int64](pi)
	lp = append(lp, val{"[1, $nil, 2]", []interface{}{1.0, nil, 2.0}, []*int64{ptrOf(int64(1)), nil, ptrOf(int64(2))}})
	echo[[]*int64](qo, sk, "lpint64")
	add(argType{name: "lpint64", gql: "[Int]", vals: lp, wrong: str})
	echo[[][]int32](qo, sk, "llint32")
	add(argType{name: "llint32", gql: "[[Int!]!]", vals: []val{{"[]", []interface{}{}, [][]int32{}}, {"[[], [1, 2]]", []interface{}{[]interface{}{}, []interface{}{1.0, 2.0}}, [][]int32{{}, {1, 2}}}}, wrong: lst})

	// nested input objects
	in1 := val{`{a: 5, c: [1, 2]}`, map[string]interface{}{"a": 5.0, "c": []interface{}{1.0, 2.0}}, Inner{A: 5, C: []int32{1, 2}}}
	in2 := val{`{a: -3, b: "x", c: []}`, map[string]interface{}{"a": -3.0, "b": "x", "c": []interface{}{}}, Inner{A: -3, B: ptrOf("x"), C: []int32{}}}
	echo[Inner](qo, sk, "inner")
	add(argType{name: "inner", gql: "Inner_InputObject", vals: []val{in1, in2},
		wrong: append(append([]val{}, num...), append(str, val{`{a: "x", c: []}`, map[string]interface{}{"a": "x", "c": []interface{}{}}, nil}, val{`{b: "only"}`, map[string]interface{}{"b": "only"}, nil})...)})
	echo[*Inner](qo, sk, "pinner")
	add(argType{name: "pinner", gql: "Inner_InputObject", vals: []val{{in1.lit, in1.js, ptrOf(in1.want.(Inner))}, {in2.lit, in2.js, ptrOf(in2.want.(Inner))}}, wrong: str, nilable: true, zero: (*Inner)(nil)})
	o1 := val{`{x: ` + in1.lit + `, zs: []}`, map[string]interface{}{"x": in1.js, "zs": []interface{}{}}, Outer{X: in1.want.(Inner), Zs: []Inner{}}}
	o2 := val{`{x: ` + in2.lit + `, y: ` + in1.lit + `, zs: [` + in1.lit + `, ` + in2.lit + `], opt: 9}`,
		map[string]interface{}{"x": in2.js, "y": in1.js, "zs": []interface{}{in1.js, in2.js}, "opt": 9.0},
		Outer{X: in2.want.(Inner), Y: ptrOf(in1.want.(Inner)), Zs: []Inner{in1.want.(Inner), in2.want.(Inner)}, Opt: 9}}
	echo[Outer](qo, sk, "outer")
	add(argType{name: "outer", gql: "Outer_InputObject", vals: []val{o1, o2}, wrong: append(append([]val{}, lst...), val{`{x: 1, zs: []}`, map[string]interface{}{"x": 1.0, "zs": []interface{}{}}, nil})})
	// a required input object all of whose own fields can be omitted: {} is a value, nothing / null is not
	lo1 := val{`{}`, map[string]interface{}{}, Loose{}}
	lo2 := val{`{p: 4, r: 2}`, map[string]interface{}{"p": 4.0, "r": 2.0}, Loose{P: ptrOf(int64(4)), R: 2}}
	echo[Loose](qo, sk, "loose")
	add(argType{name: "loose", gql: "Loose_InputObject", vals: []val{lo1, lo2}, wrong: append(append([]val{}, num...), str...)})
	echo[Holder](qo, sk, "holder")
	add(argType{name: "holder", gql: "Holder_InputObject",
		vals: []val{{`{l: {}, ls: []}`, map[string]interface{}{"l": map[string]interface{}{}, "ls": []interface{}{}}, Holder{Ls: []Loose{}}},
			{`{l: {q: "x"}, ls: [{}, {p: 1}]}`, map[string]interface{}{"l": map[string]interface{}{"q": "x"}, "ls": []interface{}{map[string]interface{}{}, map[string]interface{}{"p": 1.0}}}, Holder{L: Loose{Q: ptrOf("x")}, Ls: []Loose{{}, {P: ptrOf(int64(1))}}}}},
		wrong: []val{{`{ls: []}`, map[string]interface{}{"ls": []interface{}{}}, nil}, // l missing
			{`{l: {}, ls: [{}, $nil]}`, map[string]interface{}{"l": map[string]interface{}{}, "ls": []interface{}{map[string]interface{}{}, nil}}, nil}, // a null element
			{`{l: $nil, ls: []}`, map[string]interface{}{"l": nil, "ls": []interface{}{}}, nil}}})
	// a self-referential input object, nested up to four levels, with the fields after the self-reference in use
	recLit := func(depth int) (string, map[string]interface{}, *Rec) {
		var lit string
		var js map[string]interface{}
		var want *Rec
		for d := depth; d >= 1; d-- {
			l := fmt.Sprintf(`{value: %d, label: "L%d"`, d, d)
			j := map[string]interface{}{"value": float64(d), "label": fmt.Sprintf("L%d", d)}
			w := &Rec{Value: int64(d), Label: fmt.Sprintf("L%d", d)}
			if d%2 == 0 {
				l += fmt.Sprintf(`, tail: %d`, d*10)
				j["tail"] = float64(d * 10)
				w.Tail = ptrOf(int64(d * 10))
			}
			if want != nil {
				l += ", and: " + lit
				j["and"] = js
				w.And = want
			}
			lit, js, want = l+"}", j, w
		}
		return lit, js, want
	}
	var recVals, recWrong []val
	for depth := 1; depth <= 4; depth++ {
		l, j, w := recLit(depth)
		recVals = append(recVals, val{l, j, *w})
	}
	// wrong kind / missing required field at a nested level
	recWrong = append(recWrong,
		val{`{value: 1, label: "a", and: {value: 2, label: 5}}`, map[string]interface{}{"value": 1.0, "label": "a", "and": map[string]interface{}{"value": 2.0, "label": 5.0}}, nil},
		val{`{value: 1, label: "a", and: {value: 2}}`, map[string]interface{}{"value": 1.0, "label": "a", "and": map[string]interface{}{"value": 2.0}}, nil},
		val{`{value: 1, label: "a", and: {value: 2, label: "b", and: {label: "c"}}}`, map[string]interface{}{"value": 1.0, "label": "a", "and": map[string]interface{}{"value": 2.0, "label": "b", "and": map[string]interface{}{"label": "c"}}}, nil},
		val{`{value: 1, label: "a", and: {value: 2, label: "b", tail: "x"}}`, map[string]interface{}{"value": 1.0, "label": "a", "and": map[string]interface{}{"value": 2.0, "label": "b", "tail": "x"}}, nil})
	echo[Rec](qo, sk, "rec")
	add(argType{name: "rec", gql: "Rec_InputObject", vals: recVals, wrong: recWrong})
	echo[[]Inner](qo, sk, "linner")
	add(argType{name: "linner", gql: "[Inner_InputObject!]", vals: []val{{"[]", []interface{}{}, []Inner{}}, {"[" + in1.lit + ", " + in2.lit + "]", []interface{}{in1.js, in2.js}, []Inner{in1.want.(Inner), in2.want.(Inner)}}}, wrong: obj})

	fx.schema = s.MustBuild()
	return fx
}

func equal(a, b interface{}) bool {
	if ta, ok := a.(time.Time); ok {
		tb, ok := b.(time.Time)
		return ok && ta.Equal(tb)
	}
	if pa, ok := a.(*time.Time); ok {
		pb, ok := b.(*time.Time)
		if !ok || (pa == nil) != (pb == nil) {
			return false
		}
		return pa == nil || pa.Equal(*pb)
	}
	return reflect.DeepEqual(a, b)
}

func isClientError(err error) bool {
	for err != nil {
		if _, ok := err.(graphql.ClientError); ok {
			return true
		}
		if _, ok := err.(graphql.SanitizedError); ok {
			return true
		}
		err = errors.Unwrap(err)
	}
	return false
}

func (fx *fixture) exec(query string, vars map[string]interface{}) (calls int, last interface{}, err error) {
	fx.sink.calls, fx.sink.last = 0, nil
	_, err = gqlfix.Exec(context.Background(), fx.schema, gqlfix.FIFO{}, query, vars)
	return fx.sink.calls, fx.sink.last, err
}

func run(rp *explore.Report, tier string) {
	fx := build()
	var k int64
	fail := func(clause, class, item, format string, a ...interface{}) {
		rp.AddViolation(&explore.Violation{Item: item, Signature: "c18/" + clause + "/" + class, Stable: true,
			Failures: []explore.Failure{{Clause: clause, Msg: fmt.Sprintf(format, a...)}}})
	}
	expectValue := func(t *argType, transport, query string, vars map[string]interface{}, want interface{}) {
		k++
		if !rp.Mine(k) {
			return
		}
		rp.Cases++
		rp.Nontrivial++
		calls, last, err := fx.exec(query, vars)
		item := fmt.Sprintf("%s vars=%s", query, gqlfix.JS(vars))
		if rp.Cases%211 == 1 {
			rp.AddSample(map[string]interface{}{"query": query, "vars": vars, "want": fmt.Sprintf("%#v", want)})
		}
		if err != nil {
			fail("value-arrives", t.name+"/"+transport, item, "rejected: %v", err)
		} else if calls != 1 {
			fail("value-arrives", t.name+"/"+transport, item, "resolver ran %d times", calls)
		} else if !equal(last, want) {
			fail("value-arrives", t.name+"/"+transport, item, "resolver saw %#v, want %#v", last, want)
		}
	}
	expectReject := func(t *argType, transport, query string, vars map[string]interface{}) {
		k++
		if !rp.Mine(k) {
			return
		}
		rp.Cases++
		rp.Nontrivial++
		calls, last, err := fx.exec(query, vars)
		item := fmt.Sprintf("%s vars=%s", query, gqlfix.JS(vars))
		if err == nil {
			fail("rejected", t.name+"/"+transport, item, "accepted; resolver saw %#v", last)
		} else if calls != 0 {
			fail("rejected-before-resolver", t.name+"/"+transport, item, "resolver ran %d times although the request failed with %v", calls, err)
		} else if !isClientError(err) {
			fail("client-error", t.name+"/"+transport, item, "error is not a client error: %v", err)
		}
	}
	for ti := range fx.types {
		t := &fx.types[ti]
		f := "echo_" + t.name
		for vi, v := range t.vals {
			hasNilVar := strings.Contains(v.lit, "$nil")
			lit := strings.ReplaceAll(v.lit, "$nil", "$n")
			if !hasNilVar {
				expectValue(t, "literal", fmt.Sprintf("{ %s(v: %s) }", f, lit), nil, v.want)
			} else {
				expectValue(t, "literal+nullvar", fmt.Sprintf("query($n: Int) { %s(v: %s) }", f, lit), map[string]interface{}{}, v.want)
			}
			expectValue(t, "variable", fmt.Sprintf("query($x: %s) { %s(v: $x) }", t.gql, f), map[string]interface{}{"x": v.js}, v.want)
			if hasNilVar {
				continue
			}
			other := t.vals[(vi+1)%len(t.vals)]
			if strings.Contains(other.lit, "$nil") {
				other = t.vals[0]
			}
			// default used: variable absent, or null
			expectValue(t, "default-used-absent", fmt.Sprintf("query($x: %s = %s) { %s(v: $x) }", t.gql, lit, f), map[string]interface{}{}, v.want)
			expectValue(t, "default-used-null", fmt.Sprintf("query($x: %s = %s) { %s(v: $x) }", t.gql, lit, f), map[string]interface{}{"x": nil}, v.want)
			// default ignored: a non-null value is supplied
			expectValue(t, "default-ignored", fmt.Sprintf("query($x: %s = %s) { %s(v: $x) }", t.gql, other.lit, f), map[string]interface{}{"x": v.js}, v.want)
			// the argument sits in a named fragment (variables and their defaults are in scope there too)
			expectValue(t, "variable-in-fragment", fmt.Sprintf("query($x: %s) { ...F } fragment F on Query { %s(v: $x) }", t.gql, f), map[string]interface{}{"x": v.js}, v.want)
			expectValue(t, "default-used-in-fragment", fmt.Sprintf("query($x: %s = %s) { ...F } fragment F on Query { %s(v: $x) }", t.gql, lit, f), map[string]interface{}{}, v.want)
			expectValue(t, "default-null-in-fragment", fmt.Sprintf("query($x: %s = %s) { ...F } fragment F on Query { %s(v: $x) }", t.gql, lit, f), map[string]interface{}{"x": nil}, v.want)
			// nested in another variable position: literal object/list containing a variable is covered by lpint64
		}
		for _, w := range t.wrong {
			expectReject(t, "wrong-kind-literal", fmt.Sprintf("{ %s(v: %s) }", f, w.lit), nil)
			expectReject(t, "wrong-kind-variable", fmt.Sprintf("query($x: %s) { %s(v: $x) }", t.gql, f), map[string]interface{}{"x": w.js})
			expectReject(t, "wrong-kind-default", fmt.Sprintf("query($x: %s = %s) { %s(v: $x) }", t.gql, w.lit, f), map[string]interface{}{})
		}
		if t.nilable {
			expectValue(t, "omitted", fmt.Sprintf("{ %s }", f), nil, t.zero)
			expectValue(t, "variable-absent", fmt.Sprintf("query($x: %s) { %s(v: $x) }", t.gql, f), map[string]interface{}{}, t.zero)
			expectValue(t, "variable-null", fmt.Sprintf("query($x: %s) { %s(v: $x) }", t.gql, f), map[string]interface{}{"x": nil}, t.zero)
			// (the third-party grammar predates the `null` literal and rejects it as a syntax
			// error for every type; that is a client error, not a value mismatch)
			expectReject(t, "literal-null-unsupported", fmt.Sprintf("{ %s(v: null) }", f), nil)
		} else {
			expectReject(t, "missing-required", fmt.Sprintf("{ %s }", f), nil)
			expectReject(t, "missing-required-variable", fmt.Sprintf("query($x: %s) { %s(v: $x) }", t.gql, f), map[string]interface{}{})
			expectReject(t, "null-required-variable", fmt.Sprintf("query($x: %s) { %s(v: $x) }", t.gql, f), map[string]interface{}{"x": nil})
			if t.name != "string" && t.name != "mystr" && t.name != "upper" {
				expectReject(t, "null-required-literal", fmt.Sprintf("{ %s(v: null) }", f), nil)
			}
		}
		// (An unknown extra argument is silently ignored by thunder; the property does not
		// speak about unknown arguments, so it is not part of the oracle.)
	}
	// several variables in one operation: every combination of {no default, default} x {absent, null, value} for three
	// variables feeding three arguments of one field, in every declaration order
	multi := &argType{name: "multi"}
	type vstate struct {
		def  bool
		supp int // 0 absent, 1 null, 2 value
	}
	var states []vstate
	for _, d := range []bool{false, true} {
		for su := 0; su < 3; su++ {
			states = append(states, vstate{d, su})
		}
	}
	names := []string{"a", "b", "s"}
	gqlT := []string{"int64", "int64", "string"}
	defLit := []string{"11", "22", `"dd"`}
	defWant := []interface{}{ptrOf(int64(11)), ptrOf(int64(22)), ptrOf("dd")}
	valJS := []interface{}{float64(5), float64(6), "vv"}
	valWant := []interface{}{ptrOf(int64(5)), ptrOf(int64(6)), ptrOf("vv")}
	nilWant := []interface{}{(*int64)(nil), (*int64)(nil), (*string)(nil)}
	orders := [][]int{{0, 1, 2}, {0, 2, 1}, {1, 0, 2}, {1, 2, 0}, {2, 0, 1}, {2, 1, 0}}
	for _, ord := range orders {
		for code := 0; code < len(states)*len(states)*len(states); code++ {
			st := []vstate{states[code%6], states[code/6%6], states[code/36]}
			var decls []string
			vars := map[string]interface{}{}
			want := make([]interface{}, 3)
			for _, i := range ord {
				d := fmt.Sprintf("$%s: %s", names[i], gqlT[i])
				if st[i].def {
					d += " = " + defLit[i]
				}
				decls = append(decls, d)
			}
			for i := range names {
				switch st[i].supp {
				case 1:
					vars[names[i]] = nil
				case 2:
					vars[names[i]] = valJS[i]
				}
				switch {
				case st[i].supp == 2:
					want[i] = valWant[i]
				case st[i].def:
					want[i] = defWant[i]
				default:
					want[i] = nilWant[i]
				}
			}
			expectValue(multi, "several-variables", fmt.Sprintf("query(%s) { echo_multi(a: $a, b: $b, s: $s) }", strings.Join(decls, ", ")), vars, want)
		}
	}
	// variables as elements of list literals, as fields of object literals and inside nested lists: every subset of
	// five positions is supplied through a variable, the rest literally; the resolver must see the same value
	lists := &argType{name: "lists"}
	lwant := []interface{}{[]int64{1, 2, 3}, []*int64{ptrOf(int64(4)), ptrOf(int64(5))}, []int64{6}, ptrOf(int64(7)), [][]int64{{8, 9}, {10}}}
	for mask := 0; mask < 32; mask++ {
		pos := func(bit int, lit string, name string) string {
			if mask&(1<<bit) != 0 {
				return "$" + name
			}
			return lit
		}
		vars := map[string]interface{}{}
		var decls []string
		for bit, nv := range []struct {
			n string
			v float64
		}{{"a", 2}, {"b", 5}, {"c", 6}, {"d", 7}, {"e", 9}} {
			if mask&(1<<bit) != 0 {
				vars[nv.n] = nv.v
				decls = append(decls, "$"+nv.n+": int64")
			}
		}
		head := ""
		if len(decls) > 0 {
			head = "query(" + strings.Join(decls, ", ") + ") "
		}
		q := fmt.Sprintf("%s{ echo_lists(ids: [1, %s, 3], opt: [4, %s], f: {ids: [%s], x: %s}, nested: [[8, %s], [10]]) }",
			head, pos(0, "2", "a"), pos(1, "5", "b"), pos(2, "6", "c"), pos(3, "7", "d"), pos(4, "9", "e"))
		expectValue(lists, "variable-inside-literal", q, vars, lwant)
	}
	rp.AddOutcome(fmt.Sprintf("types=%d", len(fx.types)))
}

func init() {
	reg.Register(&reg.Harness{Property: "C18", Name: "c18/arguments", Level: "exploration", Run: run,
		Rule: "one echo field per argument type (all int/uint widths, named int/string, float32/64, bool, string, enum, []byte, time.Time, text-unmarshaler, pointers, optional-tagged, lists incl. nested and of pointers, nested input objects, a required input object whose own fields are all optional (alone, as a field and as a list element), a self-referential input object nested four levels deep) x boundary values x transport {literal, variable, default used (absent / null), default ignored; the argument in the operation or in a named fragment}, plus one three-argument field fed by three variables in every combination of {default, none} x {absent, null, value} and every declaration order, plus variables as elements of list literals / fields of object literals / inside nested lists (all 32 subsets of five positions); oracle: the Go value recorded by the resolver equals the value sent, exactly one resolver call; wrong JSON kinds, numbers that are no value of the integer type (fractions, the neighbours of its range), missing required and unknown arguments are client errors with zero resolver calls; omitted optional arrives as nil/zero"})
}
