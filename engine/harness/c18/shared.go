package c18

import (
	"context"

	"fmt"
	"github.com/samsarahq/thunder/batch"
	"github.com/samsarahq/thunder/graphql"
	"reflect"
	"strings"

	"github.com/samsarahq/thunder/graphql/schemabuilder"
	"verif/explore"
	"verif/fix/gqlfix"
	"verif/harness/reg"
	"vrt/rt"
)

// One field selection (inside a named fragment) that reaches the resolvers of two object types. The arguments are
// parsed once per selection; each resolver must see the values that were sent, or the query must be rejected as a
// client error before any resolver runs. Pairs of argument struct types: the same type, two separately declared
// identical structs, structs that differ in a field's type or optionality, and paginated fields (whose user
// arguments travel inside the connection arguments).

type GreetA struct {
	Name  string
	Times int64
}
type GreetB struct {
	Name  string
	Times int64
}
type GreetC struct {
	Name  string
	Times int32
}
type GreetD struct {
	Name  string
	Times *int64
}

type shObj struct{ Id int64 }
type shObj2 struct{ Id int64 }
type shItem struct{ Id int64 }

type shCall struct {
	who   string
	name  string
	times int64
}

func runShared(rp *explore.Report, tier string) {
	type variant struct {
		name string
		reg  func(o1, o2 *schemabuilder.Object, rec func(c shCall))
	}
	p := func(v *int64) int64 {
		if v == nil {
			return -1
		}
		return *v
	}
	variants := []variant{
		{"same-type", func(o1, o2 *schemabuilder.Object, rec func(c shCall)) {
			o1.FieldFunc("greet", func(o *shObj, a GreetA) bool { rec(shCall{"one", a.Name, a.Times}); return true })
			o2.FieldFunc("greet", func(o *shObj2, a GreetA) bool { rec(shCall{"two", a.Name, a.Times}); return true })
		}},
		{"identical-structs", func(o1, o2 *schemabuilder.Object, rec func(c shCall)) {
			o1.FieldFunc("greet", func(o *shObj, a GreetA) bool { rec(shCall{"one", a.Name, a.Times}); return true })
			o2.FieldFunc("greet", func(o *shObj2, a GreetB) bool { rec(shCall{"two", a.Name, a.Times}); return true })
		}},
		{"other-width", func(o1, o2 *schemabuilder.Object, rec func(c shCall)) {
			o1.FieldFunc("greet", func(o *shObj, a GreetA) bool { rec(shCall{"one", a.Name, a.Times}); return true })
			o2.FieldFunc("greet", func(o *shObj2, a GreetC) bool { rec(shCall{"two", a.Name, int64(a.Times)}); return true })
		}},
		{"optional-vs-required", func(o1, o2 *schemabuilder.Object, rec func(c shCall)) {
			o1.FieldFunc("greet", func(o *shObj, a GreetA) bool { rec(shCall{"one", a.Name, a.Times}); return true })
			o2.FieldFunc("greet", func(o *shObj2, a GreetD) bool { rec(shCall{"two", a.Name, p(a.Times)}); return true })
		}},
		{"paginated", func(o1, o2 *schemabuilder.Object, rec func(c shCall)) {
			o1.FieldFunc("greet", func(o *shObj, a GreetA) []shItem { rec(shCall{"one", a.Name, a.Times}); return nil }, schemabuilder.Paginated)
			o2.FieldFunc("greet", func(o *shObj2, a GreetD) []shItem { rec(shCall{"two", a.Name, p(a.Times)}); return nil }, schemabuilder.Paginated)
		}},
	}
	var k int64
	for _, v := range variants {
		for _, order := range []string{"one-first", "two-first"} {
			for _, transport := range []string{"literal", "variable"} {
				k++
				if !rp.Mine(k) {
					continue
				}
				rp.Cases++
				rp.Nontrivial++
				var calls []shCall
				s := schemabuilder.NewSchema()
				q := s.Query()
				q.FieldFunc("one", func() *shObj { return &shObj{1} })
				q.FieldFunc("two", func() *shObj2 { return &shObj2{2} })
				o1, o2 := s.Object("shObj", shObj{}), s.Object("shObj2", shObj2{})
				s.Object("shItem", shItem{}).Key("id")
				v.reg(o1, o2, func(c shCall) { calls = append(calls, c) })
				s.Mutation().FieldFunc("noop", func() bool { return true })
				schema, err := s.Build()
				if err != nil {
					panic(err)
				}
				sub := ""
				if v.name == "paginated" {
					sub = " { totalCount }"
				}
				args, decl, vars := `name: "hi", times: 2`, "", map[string]interface{}(nil)
				if transport == "variable" {
					args, decl, vars = `name: $n, times: $t`, "query($n: String!, $t: Int!) ", map[string]interface{}{"n": "hi", "t": 2.0}
				}
				body := "{ one { ...F } two { ...F } }"
				if order == "two-first" {
					body = "{ two { ...F } one { ...F } }"
				}
				text := decl + body + " fragment F on shObj { greet(" + args + ")" + sub + " }"
				var res interface{}
				var perr interface{}
				func() {
					defer func() { perr = recover() }()
					rt.RunDefault(func() { res, err = gqlfix.Exec(context.Background(), schema, gqlfix.FIFO{}, text, vars) })
				}()
				item := fmt.Sprintf("%s %s %s: %s", v.name, order, transport, text)
				fail := func(clause, format string, a ...interface{}) {
					rp.AddViolation(&explore.Violation{Item: item, Stable: true, Signature: "c18/shared-selection/" + clause + "/" + v.name,
						Failures: []explore.Failure{{Clause: clause, Msg: fmt.Sprintf(format, a...)}}})
				}
				switch {
				case perr != nil:
					fail("value-arrives", "execution panicked: %.200v", perr)
				case err != nil && len(calls) > 0:
					fail("rejected-before-resolvers", "the query failed (%.160v) after %d resolver call(s) had already run: %+v", err, len(calls), calls)
				case err != nil && !strings.Contains(err.Error(), "prepare:") && !strings.Contains(err.Error(), "parse:"):
					fail("rejected-before-resolvers", "the query failed during execution, not as a client error of validation: %.200v", err)
				case err == nil:
					want := map[string]shCall{"one": {"one", "hi", 2}, "two": {"two", "hi", 2}}
					got := map[string]shCall{}
					for _, c := range calls {
						got[c.who] = c
					}
					if len(calls) != 2 || !reflect.DeepEqual(got, want) {
						fail("value-arrives", "accepted (result %s) but the resolvers saw %+v, want each of them called once with (hi, 2)", gqlfix.JS(res), calls)
					}
				}
			}
		}
	}
	rp.AddOutcome(fmt.Sprintf("shared-selection-variants=%d", len(variants)))
	runFallbackArgs(rp, &k)
}

type fbArgsA struct{ V int64 }
type fbArgsB struct{ V int64 }

// A batch field whose fallback declares its own (identical) args struct type, with and without a trailing selection
// set parameter, served by the batch function and by the fallback: the value sent reaches whichever runs.
func runFallbackArgs(rp *explore.Report, k *int64) {
	for _, withSel := range []bool{false, true} {
		for _, useBatch := range []bool{true, false} {
			for _, transport := range []string{"literal", "variable"} {
				*k++
				if !rp.Mine(*k) {
					continue
				}
				rp.Cases++
				rp.Nontrivial++
				var seen []int64
				s := schemabuilder.NewSchema()
				s.Query().FieldFunc("one", func() *shObj { return &shObj{1} })
				o := s.Object("shObj", shObj{})
				use := func(context.Context) bool { return useBatch }
				if withSel {
					o.BatchFieldFuncWithFallback("echo",
						func(ctx context.Context, in map[batch.Index]*shObj, a fbArgsA, sel *graphql.SelectionSet) (map[batch.Index]bool, error) {
							out := map[batch.Index]bool{}
							for i := range in {
								seen = append(seen, a.V)
								out[i] = true
							}
							return out, nil
						},
						func(ctx context.Context, o *shObj, a fbArgsB, sel *graphql.SelectionSet) (*bool, error) {
							seen = append(seen, a.V)
							t := true
							return &t, nil
						}, use)
				} else {
					o.BatchFieldFuncWithFallback("echo",
						func(ctx context.Context, in map[batch.Index]*shObj, a fbArgsA) (map[batch.Index]bool, error) {
							out := map[batch.Index]bool{}
							for i := range in {
								seen = append(seen, a.V)
								out[i] = true
							}
							return out, nil
						},
						func(ctx context.Context, o *shObj, a fbArgsB) (*bool, error) {
							seen = append(seen, a.V)
							t := true
							return &t, nil
						}, use)
				}
				s.Mutation().FieldFunc("noop", func() bool { return true })
				schema, err := s.Build()
				item := fmt.Sprintf("fallback with its own args type, selection-set parameter=%v, batch in use=%v, %s", withSel, useBatch, transport)
				fail := func(clause, format string, a ...interface{}) {
					rp.AddViolation(&explore.Violation{Item: item, Stable: true, Signature: "c18/fallback-args/" + clause,
						Failures: []explore.Failure{{Clause: clause, Msg: fmt.Sprintf(format, a...)}}})
				}
				if err != nil {
					fail("harness", "the schema does not build: %v", err)
					continue
				}
				text, vars := `{ one { echo(v: 5) } }`, map[string]interface{}(nil)
				if transport == "variable" {
					text, vars = `query($x: Int!) { one { echo(v: $x) } }`, map[string]interface{}{"x": 5.0}
				}
				var perr interface{}
				func() {
					defer func() { perr = recover() }()
					rt.RunDefault(func() { _, err = gqlfix.Exec(context.Background(), schema, gqlfix.FIFO{}, text, vars) })
				}()
				switch {
				case perr != nil:
					fail("value-arrives", "execution panicked: %.200v", perr)
				case err != nil:
					fail("value-arrives", "a well-formed request failed: %.200v", err)
				case len(seen) != 1 || seen[0] != 5:
					fail("value-arrives", "the resolver saw %v, want one call with 5", seen)
				}
			}
		}
	}
}

func init() {
	reg.Register(&reg.Harness{Property: "C18", Name: "c18/shared-selection", Level: "exploration", Run: runShared,
		Rule: "one field selection inside a named fragment spread under two object types whose field takes {the same args struct, two separately declared identical structs, structs differing in a field's width, required vs optional, paginated fields with different user arguments} x both spread orders x {literal, variable}; oracle: rejected as a client error before any resolver ran, or both resolvers called once with exactly the values sent; plus a batch field whose fallback declares its own args struct type x with / without a trailing selection-set parameter x batch function / fallback in use x {literal, variable}: the value sent reaches the function that runs"})
}
