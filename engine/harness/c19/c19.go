// Package c19: @skip/@include behave as if the node were removed from / kept in the query.
package c19

import (
	"context"
	"fmt"
	"os"
	"reflect"
	"strings"

	"github.com/samsarahq/thunder/graphql"
	"verif/explore"
	"verif/fix/fedfix"
	"verif/fix/gqlfix"
	"verif/harness/reg"
	"vrt/rt"
)

// node of a query template
type node struct {
	kind     byte   // 'f' field, 'i' inline fragment, 's' named fragment spread
	text     string // field: `alias: name(args)` text; inline: type; spread: fragment name
	children []*node
	site     int // directive site index, -1 = none
}

func f(text string, site int, ch ...*node) *node {
	return &node{kind: 'f', text: text, site: site, children: ch}
}
func on(typ string, site int, ch ...*node) *node {
	return &node{kind: 'i', text: typ, site: site, children: ch}
}
func sp(name string, site int) *node { return &node{kind: 's', text: name, site: site} }

type fragDef struct {
	name, on string
	body     []*node
}

type template struct {
	name  string
	root  []*node
	frags []fragDef
	sites int
}

func templates() []template {
	return []template{
		{"field", []*node{f("users", -1, f("id", 0), f("name", 1)), f("count", 2)}, nil, 3},
		{"toplevel", []*node{f("users", 0, f("id", -1)), f("count", 1), f("nobody", 2, f("id", -1))}, nil, 3},
		{"same-alias-objects", []*node{f("users", 0, f("id", -1)), f("users", 1, f("name", 2)), f("count", -1)}, nil, 3},
		{"same-leaf-in-two-parents", []*node{f("users", -1, f("id", -1), f("name", 0), f("age", 1)), f("users", -1, f("name", 2), f("age", -1))}, nil, 3},
		{"same-alias-leaves", []*node{f("users", -1, f("name", 0), f("name", 1), f("id", 2), f("age", -1))}, nil, 3},
		{"inline-fragment", []*node{f("users", -1, f("id", -1), on("User", 0, f("name", 1), f("age", 2)))}, nil, 3},
		{"spread-twice", []*node{f("users", -1, f("id", -1), sp("F", 0)), f("user(id: 1)", -1, f("age", -1), sp("F", 1))},
			[]fragDef{{"F", "User", []*node{f("name", 2), f("score", -1)}}}, 3},
		{"spread-twice-sibling", []*node{f("users", -1, f("id", -1), sp("F", 0), sp("G", 1), sp("F", 2))},
			[]fragDef{{"F", "User", []*node{f("name", -1)}}, {"G", "User", []*node{f("age", -1)}}}, 3},
		{"union-members", []*node{f("things", -1, f("__typename", -1), on("User", 0, f("name", 1)), on("Item", 2, f("name", -1), f("id", -1)))}, nil, 3},
		{"union-same-member-twice", []*node{f("things", -1, on("User", 0, f("id", -1)), on("User", 1, f("name", -1)), on("Item", 2, f("id", -1)))}, nil, 3},
		{"union-spreads", []*node{f("things", -1, f("__typename", -1), sp("UF", 0), sp("IF", 1)), f("thing(i: 0)", -1, f("__typename", -1), sp("UF", 2))},
			[]fragDef{{"UF", "User", []*node{f("name", -1)}}, {"IF", "Item", []*node{f("name", -1), f("tags", -1)}}}, 3},
		{"nested", []*node{f("users", -1, f("id", -1), f("items", 0, f("id", -1), f("owner", 1, f("name", 2), f("id", -1))))}, nil, 3},
		{"nested-fragments", []*node{f("users", -1, f("age", -1), sp("A", 0))},
			[]fragDef{{"A", "User", []*node{f("id", -1), sp("B", 1)}}, {"B", "User", []*node{f("name", -1), f("friend", 2, f("id", -1))}}}, 3},
		// a spread with a directive inside another fragment's definition, under a union parent (both orders of the two names)
		{"union-nested-spread", []*node{f("things", -1, f("__typename", -1), sp("A", 0), on("Item", -1, f("id", -1)))},
			[]fragDef{{"A", "User", []*node{f("id", -1), sp("B", 1)}}, {"B", "User", []*node{f("name", 2), f("age", -1)}}}, 3},
		{"union-nested-spread-rev", []*node{f("things", -1, f("__typename", -1), sp("Z", 0), on("Item", -1, f("id", -1)))},
			[]fragDef{{"Z", "User", []*node{f("id", -1), sp("B", 1)}}, {"B", "User", []*node{f("name", 2), f("age", -1)}}}, 3},
		// one member fragment under two union parents, only one of which selects the union's own __typename
		{"union-typename-one-site", []*node{f("things", -1, f("t: __typename", -1), sp("UF", 0), on("Item", -1, f("id", -1))), f("thing(i: 0)", -1, sp("UF", 1))},
			[]fragDef{{"UF", "User", []*node{f("name", 2), f("id", -1)}}}, 3},
		{"union-typename-one-site-rev", []*node{f("thing(i: 0)", -1, sp("UF", 1)), f("things", -1, f("__typename", -1), sp("UF", 0), on("Item", -1, f("id", -1)))},
			[]fragDef{{"UF", "User", []*node{f("name", 2), f("id", -1)}}}, 3},
		// __typename carrying the directives itself: under an object, aliased in a nested object, directly on a union and in a member fragment
		{"typename-directives", []*node{f("users", -1, f("id", -1), f("__typename", 0), f("friend", -1, f("t: __typename", 1), f("id", -1))), f("things", -1, f("__typename", 2), on("User", -1, f("id", -1)))}, nil, 3},
		{"typename-directives-in-fragments", []*node{f("things", -1, on("User", -1, f("id", -1), f("k: __typename", 0)), on("Item", -1, f("__typename", 1), f("id", -1))), f("users", -1, sp("T", -1))},
			[]fragDef{{"T", "User", []*node{f("__typename", 2), f("name", -1)}}}, 3},
		{"args-and-alias", []*node{f("u: user(id: 2)", 0, f("n: name", 1), f("id", -1)), f("c: count", 2), f("count", -1)}, nil, 3},
		{"fav-union-nested", []*node{f("users", -1, f("id", -1), f("fav", 0, f("__typename", -1), on("Item", 1, f("name", -1)), on("User", 2, f("name", -1))))}, nil, 3},
	}
}

// directive options for one site
type opt struct {
	skip, include int  // -1 absent, 0 false, 1 true
	rev           bool // both present: @include written before @skip
}

var opts = []opt{{-1, -1, false}, {1, -1, false}, {0, -1, false}, {-1, 1, false}, {-1, 0, false}, {1, 1, false}, {1, 0, false}, {0, 1, false}, {0, 0, false},
	{1, 1, true}, {1, 0, true}, {0, 1, true}, {0, 0, true}}

func (o opt) included() bool { return o.skip != 1 && o.include != 0 }

// how a directive condition is transported
const (
	mLiteral     = iota // @skip(if: true)
	mRequiredVar        // $v: Boolean!, supplied
	mDefaultOver        // $v: Boolean = <opposite>, supplied with the intended value (the default must be ignored)
	mDefaultUsed        // $v: Boolean = <intended>, not supplied
	mDefaultNull        // $v: Boolean = <intended>, supplied as null
	mMixed              // site i uses mode 2 + i%3: several defaulted variables in one operation
	nModes
)

func (o opt) text(site int, mode int, vars map[string]interface{}, decls *[]string) string {
	var sb strings.Builder
	if mode == mMixed {
		mode = mDefaultOver + site%3
	}
	emit := func(name string, v int) {
		if v < 0 {
			return
		}
		if mode != mLiteral {
			vn := fmt.Sprintf("%s%d", name[:1], site)
			declared := false
			for _, d := range *decls {
				if strings.HasPrefix(d, "$"+vn+":") {
					declared = true
				}
			}
			if !declared {
				switch mode {
				case mRequiredVar:
					vars[vn] = v == 1
					*decls = append(*decls, fmt.Sprintf("$%s: Boolean!", vn))
				case mDefaultOver:
					vars[vn] = v == 1
					*decls = append(*decls, fmt.Sprintf("$%s: Boolean = %t", vn, v != 1))
				case mDefaultUsed:
					*decls = append(*decls, fmt.Sprintf("$%s: Boolean = %t", vn, v == 1))
				case mDefaultNull:
					vars[vn] = nil
					*decls = append(*decls, fmt.Sprintf("$%s: Boolean = %t", vn, v == 1))
				}
			}
			fmt.Fprintf(&sb, " @%s(if: $%s)", name, vn)
		} else {
			fmt.Fprintf(&sb, " @%s(if: %t)", name, v == 1)
		}
	}
	if o.rev {
		emit("include", o.include)
		emit("skip", o.skip)
	} else {
		emit("skip", o.skip)
		emit("include", o.include)
	}
	return sb.String()
}

type printer struct {
	assign []opt
	byVar  int
	pruned bool
	vars   map[string]interface{}
	decls  []string
	used   map[string]bool
	empty  bool // pruning left an empty selection set
}

func (p *printer) nodes(ns []*node) string {
	var parts []string
	for _, n := range ns {
		o := opt{-1, -1, false}
		if n.site >= 0 {
			o = p.assign[n.site]
		}
		if p.pruned && !o.included() {
			continue
		}
		dir := ""
		if !p.pruned && n.site >= 0 {
			dir = o.text(n.site, p.byVar, p.vars, &p.decls)
		}
		switch n.kind {
		case 'f':
			s := n.text + dir
			if len(n.children) > 0 {
				s += " " + p.block(n.children)
			}
			parts = append(parts, s)
		case 'i':
			parts = append(parts, "... on "+n.text+dir+" "+p.block(n.children))
		case 's':
			p.used[n.text] = true
			parts = append(parts, "..."+n.text+dir)
		}
	}
	return strings.Join(parts, " ")
}

func (p *printer) block(ns []*node) string {
	inner := p.nodes(ns)
	if inner == "" {
		p.empty = true
	}
	return "{ " + inner + " }"
}

// print returns the query text; ok=false when pruning produced an empty selection set.
func (t *template) print(assign []opt, byVar int, pruned bool) (text string, vars map[string]interface{}, ok bool) {
	p := &printer{assign: assign, byVar: byVar, pruned: pruned, vars: map[string]interface{}{}, used: map[string]bool{}}
	body := p.block(t.root)
	// fragment definitions: only those (transitively) used
	defs := map[string]string{}
	for changed := true; changed; {
		changed = false
		for _, fd := range t.frags {
			if p.used[fd.name] && defs[fd.name] == "" {
				defs[fd.name] = "fragment " + fd.name + " on " + fd.on + " " + p.block(fd.body)
				changed = true
			}
		}
	}
	var sb strings.Builder
	if len(p.decls) > 0 {
		sb.WriteString("query Q(" + strings.Join(p.decls, ", ") + ") ")
	}
	sb.WriteString(body)
	for _, fd := range t.frags {
		if d := defs[fd.name]; d != "" {
			sb.WriteString(" " + d)
		}
	}
	return sb.String(), p.vars, !p.empty
}

func sigOf(t *template, assign []opt) string {
	// class of the case: template + which directive forms are involved
	both, skipT, incF := false, false, false
	for _, o := range assign {
		if o.skip >= 0 && o.include >= 0 {
			both = true
		}
		if o.skip == 1 {
			skipT = true
		}
		if o.include == 0 {
			incF = true
		}
	}
	return fmt.Sprintf("c19/annotated!=pruned/%s/both=%t/skipT=%t/incF=%t", t.name, both, skipT, incF)
}

type execFn func(text string, vars map[string]interface{}) (interface{}, error)

func enumerate(rp *explore.Report, tier string, prefix string, ts []template, exec execFn, k *int64) {
	modes := []int{mLiteral, mRequiredVar, mDefaultOver, mDefaultUsed, mDefaultNull, mMixed}
	if prefix != "" && tier != "thorough" {
		modes = []int{mLiteral, mRequiredVar, mMixed} // through the gateway the quick tier keeps three of the six transports
	}
	nopts := len(opts)
	for ti := range ts {
		t := &ts[ti]
		n := 1
		for i := 0; i < t.sites; i++ {
			n *= nopts
		}
		for code := 0; code < n; code++ {
			assign := make([]opt, t.sites)
			c := code
			nd := 0
			for i := range assign {
				assign[i] = opts[c%nopts]
				if c%nopts != 0 {
					nd++
				}
				c /= nopts
			}
			anyRev := false
			for _, o := range assign {
				anyRev = anyRev || o.rev
			}
			for _, byVar := range modes {
				if anyRev && byVar >= mDefaultOver {
					continue // the written order of the two directives is varied for literal and required-variable conditions
				}
				*k++
				if !rp.Mine(*k) {
					continue
				}
				rp.Cases++
				ann, vars, _ := t.print(assign, byVar, false)
				pr, _, ok := t.print(assign, byVar, true)
				if !ok {
					continue
				}
				if nd > 0 {
					rp.Nontrivial++
				}
				want, werr := exec(pr, nil)
				if byVar >= mDefaultOver && strings.Contains(ann, " = ") {
					// the caller's variables map has been through the parser before, with an operation that declares
					// the opposite defaults: nothing of that may stick to the map
					if vars == nil {
						vars = map[string]interface{}{}
					}
					head := strings.SplitN(ann, "{", 2)[0]
					flipped := strings.NewReplacer("= true", "= false", "= false", "= true").Replace(head) + "{ count }"
					graphql.Parse(flipped, vars)
				}
				got, gerr := exec(ann, vars)
				if rp.Cases%997 == 1 {
					rp.AddSample(map[string]interface{}{"via": prefix, "annotated": ann, "vars": vars, "pruned": pr})
				}
				if werr != nil {
					rp.AddViolation(&explore.Violation{Item: pr, Signature: "c19/harness/pruned-query-rejected/" + prefix + t.name, Stable: true,
						Failures: []explore.Failure{{Clause: "harness", Msg: "pruned query failed: " + werr.Error()}}})
					continue
				}
				if gerr != nil || !reflect.DeepEqual(got, want) {
					msg := fmt.Sprintf("[%s] annotated %q vars=%v gives %s (err=%v); pruned %q gives %s", prefix, ann, vars, gqlfix.JS(got), gerr, pr, gqlfix.JS(want))
					rp.AddViolation(&explore.Violation{Item: ann, Signature: prefix + sigOf(t, assign), Stable: true,
						Failures: []explore.Failure{{Clause: "annotated==pruned", Msg: msg}}})
				}
			}
		}
	}
}

func run(rp *explore.Report, tier string) {
	data := gqlfix.DataSets()[0]
	schema := gqlfix.Build(data, gqlfix.Modes{}, nil)
	var k int64
	enumerate(rp, tier, "", templates(), func(text string, vars map[string]interface{}) (interface{}, error) {
		return gqlfix.Exec(context.Background(), schema, gqlfix.FIFO{}, text, vars)
	}, &k)
	_ = graphql.SKIP
}

// the same rule through the federation gateway (fields of User/Device split over two services)
func fedTemplates() []template {
	return []template{
		{"fed-fields", []*node{f("users", -1, f("id", -1), f("email", 0), f("age", 1)), f("devices", 2, f("id", -1)), f("admins", -1, f("id", -1))}, nil, 3},
		{"fed-same-alias", []*node{f("users", 0, f("id", -1)), f("users", 1, f("email", 2)), f("admins", -1, f("id", -1))}, nil, 3},
		// one leaf in both copies of a repeated parent, with its own directives in each (same service and hop)
		{"fed-same-leaf-twice", []*node{f("users", -1, f("id", -1), f("name", 0), f("email", 1)), f("users", -1, f("name", 2), f("email", -1))}, nil, 3},
		{"fed-same-leaf-twice-spread", []*node{f("users", -1, sp("L", 0), f("id", -1)), f("users", -1, sp("L", 1))},
			[]fragDef{{"L", "User", []*node{f("email", 2), f("name", -1)}}}, 3},
		{"fed-spread-twice", []*node{f("users", -1, f("id", -1), sp("F", 0)), f("user(id: 1)", -1, f("id", -1), sp("F", 1))},
			[]fragDef{{"F", "User", []*node{f("email", 2), f("device", -1, f("temp", -1))}}}, 3},
		{"fed-union", []*node{f("everyone", -1, f("__typename", -1), on("User", 0, f("email", 1), f("id", -1)), on("Admin", 2, f("hiding", -1)))}, nil, 3},
		// fragments whose type condition is the union itself (they apply to every member), inline and spread twice
		{"fed-union-name", []*node{f("everyone", -1, f("__typename", -1), on("Everyone", 0, on("User", 1, f("email", -1)), on("Admin", -1, f("hiding", -1))), on("User", 2, f("id", -1)))}, nil, 3},
		{"fed-union-name-spread", []*node{f("everyone", -1, f("__typename", -1), sp("E", 0), sp("E", 1), on("Admin", 2, f("id", -1)))},
			[]fragDef{{"E", "Everyone", []*node{on("User", -1, f("email", -1), f("age", -1)), on("Admin", -1, f("hiding", -1))}}}, 3},
		{"fed-nested-spread", []*node{f("users", -1, f("id", -1), sp("A", 0))},
			[]fragDef{{"A", "User", []*node{f("age", -1), sp("B", 1)}}, {"B", "User", []*node{f("email", 2), f("id", -1)}}}, 3},
		{"fed-hop", []*node{f("users", -1, f("id", -1), f("device", 0, f("id", -1), f("temp", 1), f("owner", 2, f("email", -1))))}, nil, 3},
	}
}

func runFed(rp *explore.Report, tier string) {
	d := fedfix.DataSets()[0]
	a := fedfix.Assignment{"users": "s1", "user": "s1", "devices": "s2", "everyone": "s1", "admins": "s2", "nobody": "s1", "noUsers": "s1"}
	for i, fl := range fedfix.ExtraFields {
		a[fl] = []string{"s2", "s1"}[i%2]
	}
	var k int64
	res := rt.Execute(rt.Config{MaxSteps: 2000000000, MaxClock: 100000000}, func() {
		ctx, cancel := rt.WithCancel(context.Background())
		defer cancel()
		g, err := fedfix.NewGateway(ctx, d, a, nil)
		if err != nil {
			panic(err)
		}
		enumerate(rp, tier, "gateway/", fedTemplates(), func(text string, vars map[string]interface{}) (res interface{}, err error) {
			defer func() {
				if p := recover(); p != nil {
					err = fmt.Errorf("PANIC: %v", p)
				}
			}()
			q, err := graphql.Parse(text, vars)
			if err != nil {
				return nil, err
			}
			r, _, err := g.Exec.Execute(ctx, q, nil)
			if err != nil {
				return nil, err
			}
			return gqlfix.Norm(r)
		}, &k)
	})
	if os.Getenv("VERIF_DEBUG") != "" {
		fmt.Fprintf(os.Stderr, "c19/gateway: cases=%d steps=%d clockfires=%d stepcap=%v clockcap=%v threads=%d\n", rp.Cases, res.Steps, res.ClockFires, res.StepCap, res.ClockCap, res.Threads)
	}
	if res.StepCap || res.ClockCap {
		rp.CapsHit["c19/gateway:stepcap"]++
		rp.Exhaustive = false
	}
	if res.Deadlock || len(res.Panics) > 0 {
		rp.AddViolation(&explore.Violation{Item: "gateway run", Signature: "c19/gateway/blocked-or-panicked", Stable: true,
			Failures: []explore.Failure{{Clause: "harness", Msg: fmt.Sprintf("deadlock=%v %v panics=%v", res.Deadlock, res.Blocked, res.Panics)}}})
	}
}

func init() {
	reg.Register(&reg.Harness{Property: "C19", Name: "c19/gateway", Level: "exploration", Run: runFed,
		Rule: "the same enumeration through the federation gateway: 8 templates (fields on different services, same-alias selections, a fragment spread twice, union member fragments, fragments on the union's own name inline and spread twice, a two-hop plan) x 13^3 directive assignments (both written orders of a skip+include pair) x the six condition transports (quick: literal, required variable and the mixed defaults), over a two-service split of the fedfix domain; oracle: gateway(annotated) == gateway(pruned)"})
	reg.Register(&reg.Harness{Property: "C19", Name: "c19/directives", Level: "exploration", Run: run,
		Rule: "16 query templates (fields, same-alias objects/leaves, inline fragments, one named fragment spread twice in different and in the same selection set, union member fragments incl. the same member twice, spreads under unions, nested fragments, aliases+arguments) x every assignment of {none, skip T/F, include T/F, both in all four combinations and both written orders} to 3 directive sites x condition transport {literal, required variable, variable with a default that the supplied value overrides, default used (variable absent), default used (variable null), a mix of the last three over the sites}; oracle: Execute(annotated) == Execute(textually pruned query); non-trivial = at least one directive present"})
}
