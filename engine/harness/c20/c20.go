// Package c20: concurrency limiter — never more than n holders, no token lost.
package c20

import (
	"context"
	"fmt"
	"strings"

	"github.com/samsarahq/thunder/concurrencylimiter"
	"verif/explore"
	"verif/harness/reg"
	"vrt/rt"
)

// ops of a thread script
const (
	opW  = 'W' // work inside the critical section (counted)
	opTy = 'y' // TemporarilyRelease(yield)
	opTn = 'n' // nested TemporarilyRelease
	opTr = 'r' // release during a temporary release
	opR  = 'R' // release
	opRR = 'D' // release twice
	opH  = 'H' // hand the release func to a new thread which calls it
	opTN = 'N' // nested temporary release; after the inner one returned, the outer function takes and returns a token of its own
	opTp = 'P' // TemporarilyRelease of a function that panics; the panic is recovered above it and the holder works on (not in the enumerated alphabet: used by the listed scripts only)
	opS  = 'S' // share ctx (holder) with a helper thread; both TemporarilyRelease concurrently (uncounted)
)

const alphabet = "WynNrRDHS"

func scripts(maxLen int) []string {
	var out []string
	var rec func(prefix string)
	rec = func(prefix string) {
		if len(prefix) > 0 {
			out = append(out, prefix)
		}
		if len(prefix) == maxLen {
			return
		}
		for _, c := range alphabet {
			rec(prefix + string(c))
		}
	}
	rec("")
	return out
}

type state struct {
	x     *explore.Exec
	n     int
	in    int
	maxIn int
	obj   rt.Obj // the counter is shared state: accesses are recorded in the happens-before relation
}

func (s *state) enter() {
	s.touch()
	s.in++
	if s.in > s.maxIn {
		s.maxIn = s.in
	}
	if s.in > s.n {
		s.x.Fail("inCS<=n", "", "%d goroutines hold a token of a limiter of size %d", s.in, s.n)
	}
}

func (s *state) touch() {
	if r := rt.Cur(); r != nil {
		r.TouchHB("counter", &s.obj)
	}
}

func (s *state) dec() {
	s.touch()
	s.in--
}

// ctx modes
const (
	ctxLive = iota
	ctxPreCancelled
	ctxCancelledLater
	ctxNoLimiter
)

var ctxNames = []string{"live", "precancelled", "cancelled-later", "nolimiter"}

func runScript(s *state, base context.Context, mode int, script string) {
	ctx := base
	counted := mode == ctxLive
	switch mode {
	case ctxPreCancelled:
		c, cancel := context.WithCancel(base)
		cancel()
		ctx = c
	case ctxCancelledLater:
		c, cancel := rt.WithCancel(base)
		ctx = c
		rt.Go(func() { cancel() })
	case ctxNoLimiter:
		ctx = context.Background()
	}
	steps0 := 0
	if r := rt.Cur(); r != nil {
		steps0 = len(r.Self().Path) // unused; keeps r referenced
	}
	_ = steps0
	hctx, rel := concurrencylimiter.Acquire(ctx)
	if mode == ctxPreCancelled || mode == ctxNoLimiter {
		// Acquire must not have blocked; nothing to count. (Blocking would show as deadlock
		// when the limiter is saturated; see item "saturated".)
	}
	holding := true
	if counted {
		s.enter()
	}
	leave := func() {
		if holding && counted {
			s.dec()
		}
		holding = false
	}
	for _, op := range script {
		switch op {
		case opW:
			rt.Yield()
		case opTy:
			if holding && counted {
				s.dec()
			}
			concurrencylimiter.TemporarilyRelease(hctx, func() { rt.Yield() })
			if holding && counted {
				s.enter()
			}
		case opTp:
			if holding && counted {
				s.dec()
			}
			func() {
				defer func() { recover() }()
				concurrencylimiter.TemporarilyRelease(hctx, func() {
					rt.Yield()
					panic("the released function fails")
				})
			}()
			if holding && counted {
				s.enter()
			}
		case opTn:
			if holding && counted {
				s.dec()
			}
			concurrencylimiter.TemporarilyRelease(hctx, func() {
				concurrencylimiter.TemporarilyRelease(hctx, func() { rt.Yield() })
			})
			if holding && counted {
				s.enter()
			}
		case opTN:
			if holding && counted {
				s.dec()
			}
			concurrencylimiter.TemporarilyRelease(hctx, func() {
				concurrencylimiter.TemporarilyRelease(hctx, func() { rt.Yield() })
				// still inside the outer temporary release: the token given up must be obtainable
				// (not after S: a holder shared between goroutines is outside the counted model)
				if holding && counted {
					_, rel2 := concurrencylimiter.Acquire(base)
					s.enter()
					s.dec()
					rel2()
				}
			})
			if holding && counted {
				s.enter()
			}
		case opTr:
			leave()
			concurrencylimiter.TemporarilyRelease(hctx, func() { rel() })
		case opR:
			leave()
			rel()
		case opRR:
			leave()
			rel()
			rel()
		case opH:
			leave()
			rt.Go(func() { rel() })
		case opS:
			// shared holder: by documented design the sharing goroutines run
			// independently, so from here on this thread is not counted.
			leave()
			counted = false
			done := rt.NewVar(0)
			rt.Go(func() {
				concurrencylimiter.TemporarilyRelease(hctx, func() { rt.Yield() })
				done.Store(1)
			})
			concurrencylimiter.TemporarilyRelease(hctx, func() { rt.Yield() })
			_ = done
		}
	}
	leave()
	rel()
}

func item(n int, modes []int, scr []string) *explore.Item {
	name := fmt.Sprintf("n=%d", n)
	for i := range scr {
		name += fmt.Sprintf(" t%d=%s/%s", i, ctxNames[modes[i]], scr[i])
	}
	return &explore.Item{
		Name:  name,
		Bound: -1,
		Body: func(x *explore.Exec) {
			s := &state{x: x, n: n}
			base := concurrencylimiter.With(context.Background(), n)
			fin := rt.NewVar(0)
			for i := range scr {
				i := i
				rt.Go(func() {
					runScript(s, base, modes[i], scr[i])
					fin.Update(func(v int) int { return v + 1 })
				})
			}
			rt.Quiesce()
			if fin.Peek() != len(scr) {
				x.Fail("all-return", "", "only %d of %d threads finished", fin.Peek(), len(scr))
				return
			}
			if s.in != 0 {
				x.Fail("harness", "", "counter not zero at end: %d", s.in)
			}
			// full capacity must be available again: n acquires succeed without blocking
			got := rt.NewVar(0)
			rt.Go(func() {
				for i := 0; i < n; i++ {
					concurrencylimiter.Acquire(base)
					got.Update(func(v int) int { return v + 1 })
				}
			})
			rt.Quiesce()
			if got.Peek() != n {
				x.Fail("capacity-restored", "", "only %d of %d tokens available after all holders released", got.Peek(), n)
			}
			x.Outcome("max=%d", s.maxIn)
			if s.maxIn >= 1 {
				x.Nontrivial()
			}
		},
		Post: func(x *explore.Exec, res *rt.Result) {
			if res.Deadlock && !x.Failed() {
				x.Fail("deadlock", "", "blocked: %v", res.Blocked)
			}
			for _, p := range res.Panics {
				x.Fail("panic", "", "%s: %s", p.Thread, p.Value)
			}
		},
	}
}

// zeroItem: a limiter of size 0 admits nobody. A live-context Acquire stays blocked (until its context ends), a
// pre-cancelled or later-cancelled one returns without a token, and nobody is ever counted as a holder.
func zeroItem(withLater bool) *explore.Item {
	name := "n=0 live+precancelled"
	if withLater {
		name = "n=0 live+cancelled-later"
	}
	return &explore.Item{Name: name, Bound: -1, Body: func(x *explore.Exec) {
		s := &state{x: x, n: 0}
		base := concurrencylimiter.With(context.Background(), 0)
		liveCtx, cancelLive := rt.WithCancel(base)
		returned := rt.NewVar(0)
		rt.Go(func() { // live: must not get past Acquire while its context is alive
			_, rel := concurrencylimiter.Acquire(liveCtx)
			if liveCtx.Err() == nil {
				s.enter()
				s.dec()
			}
			rel()
			returned.Update(func(v int) int { return v + 1 })
		})
		other := ctxPreCancelled
		if withLater {
			other = ctxCancelledLater
		}
		rt.Go(func() {
			runScript(s, base, other, "r")
			returned.Update(func(v int) int { return v + 1 })
		})
		rt.Quiesce()
		if returned.Peek() != 1 {
			x.Fail("all-return", "", "%d threads returned from Acquire on a limiter of size 0 with one live and one cancelled context, want exactly 1", returned.Peek())
		}
		cancelLive()
		rt.Quiesce()
		if returned.Peek() != 2 {
			x.Fail("all-return", "", "Acquire did not return after its context was cancelled")
		}
		x.Outcome("max=%d", s.maxIn)
		x.Nontrivial()
	}}
}

func parseItem(name string) *explore.Item {
	if strings.HasPrefix(name, "n=0 ") {
		return zeroItem(strings.Contains(name, "cancelled-later"))
	}
	var n int
	parts := strings.Fields(name)
	fmt.Sscanf(parts[0], "n=%d", &n)
	var modes []int
	var scr []string
	for _, p := range parts[1:] {
		kv := strings.SplitN(p, "=", 2)
		ms := strings.SplitN(kv[1], "/", 2)
		for i, nm := range ctxNames {
			if nm == ms[0] {
				modes = append(modes, i)
			}
		}
		scr = append(scr, ms[1])
	}
	return item(n, modes, scr)
}

func run(rp *explore.Report, tier string) {
	// quick: thread 0 scripts of length <=2, thread 1 of length 1; thorough: both <=2, plus 3 threads of length 1
	threads := []int{2}
	if tier == "thorough" {
		threads = []int{2, 3}
	}
	var k int64
	for _, later := range []bool{false, true} {
		k++
		if rp.Mine(k) {
			rp.Explore(zeroItem(later))
		}
	}
	// a release handed to another thread that may land anywhere in a temporary release of the holder (its tail
	// included: the function has returned, the token is being taken back), next to two contenders
	// a temporarily released function that panics (recovered by the caller, which goes on working before it releases)
	for _, scr := range [][]string{{"PW", "W"}, {"PW", "W", "W"}, {"PW", "PW", "W"}} {
		for _, n := range []int{1, 2} {
			k++
			if !rp.Mine(k) {
				continue
			}
			rp.Explore(item(n, make([]int, len(scr)), append([]string{}, scr...)))
		}
	}
	for _, s0 := range []string{"Hy", "Hn", "HyW"} {
		for _, n := range []int{1, 2} {
			k++
			if !rp.Mine(k) {
				continue
			}
			scr := []string{s0, "W", "W"}
			if n == 2 {
				scr = append(scr, "W")
			}
			it := item(n, make([]int, len(scr)), scr)
			it.Bound = 3
			rp.Explore(it)
		}
	}
	for _, T := range threads {
		L := 2
		if T == 3 {
			L = 1
		}
		sc := scripts(L)
		sc1 := sc
		if tier != "thorough" {
			sc1 = scripts(1)
		}
		for _, n := range []int{1, 2} {
			for m0 := 0; m0 < 4; m0++ {
				var gen func(cur []string)
				gen = func(cur []string) {
					if len(cur) == T {
						// symmetry: threads 1.. are all live, keep their scripts sorted
						for i := 2; i < T; i++ {
							if cur[i] < cur[i-1] {
								return
							}
						}
						if m0 == ctxLive && len(sc1) == len(sc) && cur[1] < cur[0] {
							return
						}
						k++
						if !rp.Mine(k) {
							return
						}
						modes := make([]int, T)
						modes[0] = m0
						it := item(n, modes, append([]string{}, cur...))
						rp.Explore(it)
						return
					}
					list := sc
					if len(cur) > 0 {
						list = sc1
					}
					for _, s := range list {
						gen(append(cur, s))
					}
				}
				gen(nil)
			}
		}
	}
}

func init() {
	reg.Register(&reg.Harness{Property: "C20", Name: "c20/limiter", Level: "model_checking", Bounds: [2]int{3, 4}, Run: run, Item: parseItem,
		Rule: "items = limiter size (0: nobody is admitted, 1, 2) x context mode of thread 0 x thread scripts over {W,y,n,N,r,R,D,H,S} (plus listed scripts with P: a temporarily released function that panics); every interleaving within the deviation bound is executed on the real concurrencylimiter; non-trivial = executions in which at least one counted holder entered the critical section"})
}
