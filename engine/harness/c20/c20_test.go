package c20

import (
	"testing"
	"time"

	"verif/explore"
)

func TestOne(t *testing.T) {
	for _, b := range []int{0, 1, 2} {
		rp := explore.NewReport(explore.Options{Property: "C20", Harness: "c20", Bound: b})
		st := time.Now()
		rp.Explore(item(1, []int{0, 0}, []string{"Wy", "R"}))
		t.Logf("bound %d execs=%d steps=%d points=%d viol=%d eng=%v out=%v in %v", b, rp.Execs, rp.Transitions, rp.Points, len(rp.Violations), rp.EngineErrors, rp.Outcomes, time.Since(st))
		for _, v := range rp.Violations {
			t.Logf("%+v", v.Failures)
		}
	}
}
