package c20

import (
	"reflect"
	"testing"
	"time"

	"verif/explore"
)

// The happens-before cache must not change the set of observed outcomes.
func TestCacheEquivalence(t *testing.T) {
	items := [][2][]string{{{"Wy", "R"}, nil}, {{"yW", "S"}, nil}, {{"rW", "H"}, nil}, {{"D", "n"}, nil}}
	for _, n := range []int{1, 2} {
		for m0 := 0; m0 < 4; m0++ {
			for _, its := range items {
				var outs [2]map[string]bool
				var execs [2]int64
				for c := 0; c < 2; c++ {
					rp := explore.NewReport(explore.Options{Property: "C20", Harness: "c20", Bound: 2, NoCache: c == 0})
					st := time.Now()
					rp.Explore(item(n, []int{m0, 0}, its[0]))
					outs[c] = map[string]bool{}
					for k := range rp.Outcomes {
						outs[c][k] = true
					}
					for _, v := range rp.Violations {
						outs[c]["V:"+v.Signature] = true
					}
					execs[c] = rp.Execs
					if len(rp.EngineErrors) > 0 {
						t.Fatalf("engine errors: %v", rp.EngineErrors)
					}
					_ = st
				}
				if !reflect.DeepEqual(outs[0], outs[1]) {
					t.Errorf("n=%d m0=%d %v: outcomes differ: nocache=%v cache=%v", n, m0, its[0], outs[0], outs[1])
				}
				t.Logf("n=%d m0=%d %v: execs nocache=%d cache=%d outcomes=%v", n, m0, its[0], execs[0], execs[1], outs[1])
			}
		}
	}
}
