// Package reactiveh: harnesses over the real reactive package.
// C04: no lost invalidation, runs never overlap, Stop is final.
// C08: cached values are never stale at quiescence; every resource is cleaned up exactly once.
package reactiveh

import (
	"context"
	"errors"
	"fmt"
	"strings"
	"time"

	"github.com/samsarahq/thunder/reactive"
	"verif/explore"
	"verif/harness/reg"
	"vrt/rt"
	"vrt/vsync"
	"vrt/vtime"
)

type cfg struct {
	Shape   string // direct | cache | shared | twolevel | cond | purge | after
	Mode    string // strobe (long-lived resource + Strobe) | perrun (new resource per run + Invalidate via registry)
	NRes    int
	Writers int
	Writes  int
	Spawn   bool
	MinInt  int // minRerunInterval in ms
	WTR     int // WriteThenReadDelay in ms
	Stop    bool
	Runners int
	Fail    bool   // compute fails (non-retry error) once version of R0 reaches 2
	Stops   int    // 1: the context the rerunner was created with is cancelled just before Stop; 2: two threads call Stop
	Retry   int    // 1: the top-level computation returns RetrySentinelError once, after registering its dependencies, when item 0 is at version >= 1; 2: the same inside its first cached child
	Pre     string // items written one at a time by the main thread, each followed by quiescence, before the concurrent phase ("-" = none)
	Plain   bool   // strobe mode: once the first run has settled, a thread without a rerunner registers a dependency on the long-lived resource 0 (a non-reactive reader of shared state), concurrently with the writers
}

func (c cfg) name() string {
	return fmt.Sprintf("shape=%s mode=%s nres=%d writers=%d writes=%d spawn=%t minint=%d wtr=%d stop=%t runners=%d fail=%t",
		c.Shape, c.Mode, c.NRes, c.Writers, c.Writes, c.Spawn, c.MinInt, c.WTR, c.Stop, c.Runners, c.Fail) + c.pre()
}

func (c cfg) pre() string {
	s := ""
	if c.Pre != "" || c.Retry != 0 || c.Stops != 0 {
		p := c.Pre
		if p == "" {
			p = "-"
		}
		s += " pre=" + p
	}
	if c.Retry != 0 {
		s += fmt.Sprintf(" retry=%d", c.Retry)
	}
	if c.Stops != 0 {
		s += fmt.Sprintf(" stops=%d", c.Stops)
	}
	if c.Plain {
		s += " plainreader"
	}
	return s
}

func parse(s string) cfg {
	var c cfg
	s = strings.NewReplacer("shape=", "", "mode=", "", "nres=", "", "writers=", "", "writes=", "", "spawn=", "", "minint=", "", "wtr=", "", "stop=", "", "runners=", "", "fail=", "", "pre=", "", "retry=", "", "stops=", "").Replace(s)
	fmt.Sscan(s, &c.Shape, &c.Mode, &c.NRes, &c.Writers, &c.Writes, &c.Spawn, &c.MinInt, &c.WTR, &c.Stop, &c.Runners, &c.Fail, &c.Pre, &c.Retry, &c.Stops)
	if c.Pre == "-" {
		c.Pre = ""
	}
	return c
}

func parsePlain(s string) cfg {
	c := parse(strings.Replace(s, " plainreader", "", 1))
	c.Plain = strings.Contains(s, " plainreader")
	return c
}

// world is the per-execution state shared by compute functions, writers and the oracle.
type world struct {
	x      *explore.Exec
	c      cfg
	obj    rt.Obj // harness bookkeeping below is shared state
	vers   []*rt.Var[int]
	long   []*reactive.Resource // strobe mode
	regMu  vsync.Mutex
	reg    [][]*reactive.Resource // perrun mode: live resources per data item (insertion order)
	clean  map[*reactive.Resource]int
	allRes []*reactive.Resource
}

func (w *world) touch() {
	if r := rt.Cur(); r != nil {
		r.TouchHB("world", &w.obj)
	}
}

type read struct {
	res int
	ver int
}

// output of a (sub)computation: the versions it is based on and the per-run resources it owns.
type output struct {
	reads []read
	owns  []*reactive.Resource
}

func (o *output) merge(p *output) {
	o.reads = append(o.reads, p.reads...)
	o.owns = append(o.owns, p.owns...)
}

// readRes registers the dependency first and then reads the data (the livesql order).
func (w *world) readRes(ctx context.Context, i int) *output {
	out := &output{}
	if w.c.Mode == "strobe" {
		reactive.AddDependency(ctx, w.long[i], nil)
	} else {
		res := reactive.NewResource()
		w.regMu.Lock()
		w.reg[i] = append(w.reg[i], res)
		w.allRes = append(w.allRes, res)
		w.regMu.Unlock()
		res.Cleanup(func() {
			w.regMu.Lock()
			for k, r := range w.reg[i] {
				if r == res {
					w.reg[i] = append(w.reg[i][:k:k], w.reg[i][k+1:]...)
					break
				}
			}
			w.clean[res]++
			n := w.clean[res]
			w.regMu.Unlock()
			rt.Note("cleanup of a resource of item %d", i)
			if n > 1 {
				w.x.Fail("cleanup<=1", "", "cleanup of a resource of item %d ran %d times", i, n)
			}
		})
		reactive.AddDependency(ctx, res, nil)
		out.owns = append(out.owns, res)
	}
	out.reads = append(out.reads, read{i, w.vers[i].Load()})
	rt.Note("read item %d -> version %d", i, out.reads[0].ver)
	return out
}

func (w *world) write(i int) {
	nv := w.vers[i].Update(func(v int) int { return v + 1 })
	rt.Note("write item %d := version %d", i, nv)
	if w.c.Mode == "strobe" {
		w.long[i].Strobe()
		return
	}
	w.regMu.Lock()
	rs := append([]*reactive.Resource{}, w.reg[i]...)
	w.regMu.Unlock()
	for _, r := range rs {
		r.Invalidate()
	}
}

type runner struct {
	maxRuns   int // plain-reader configurations: upper bound for runs (runs at the settled point + one per later write + 1)
	w         *world
	id        int
	rr        *reactive.Rerunner
	running   int
	runs      int
	last      *output // output of the last completed run
	failed    bool
	stopped   bool
	afterLeft int
	retried   bool
	retries   int
}

var errStop = errors.New("computation failed")

func (rn *runner) compute(ctx context.Context) (interface{}, error) {
	w := rn.w
	w.touch()
	if rn.stopped {
		w.x.Fail("no-run-after-stop", "", "runner %d: compute function entered after Stop returned", rn.id)
	}
	rn.running++
	rt.Note("compute start (run %d)", rn.runs+1)
	if rn.running > 1 {
		w.x.Fail("no-overlap", "", "runner %d: %d runs in progress", rn.id, rn.running)
	}
	out := &output{}
	usedAfter := false
	var cacheErr error
	retryNow := func(o *output) bool { // a transient failure, once, after the dependencies have been registered
		if w.c.Retry == 0 || rn.retried || len(o.reads) == 0 || o.reads[0].res != 0 || o.reads[0].ver < 1 {
			return false
		}
		rn.retried = true
		rn.retries++
		rt.Note("transient failure (RetrySentinelError) after reading %v", o.reads)
		return true
	}
	firstChild := true
	cached := func(ctx context.Context, key string, f func(ctx context.Context) *output) *output {
		inChild := w.c.Retry == 2 && firstChild
		firstChild = false
		v, err := reactive.Cache(ctx, key, func(ctx context.Context) (interface{}, error) {
			o := f(ctx)
			if inChild && retryNow(o) {
				return nil, reactive.RetrySentinelError
			}
			return o, nil
		})
		if err != nil { // the run's context was cancelled (Stop), or the injected transient failure
			cacheErr = err
			return &output{reads: []read{{0, -1}}}
		}
		return v.(*output)
	}
	switch w.c.Shape {
	case "direct":
		for i := 0; i < w.c.NRes; i++ {
			out.merge(w.readRes(ctx, i))
		}
	case "cache":
		for i := 0; i < w.c.NRes; i++ {
			i := i
			out.merge(cached(ctx, fmt.Sprint("k", i), func(ctx context.Context) *output { return w.readRes(ctx, i) }))
		}
	case "shared":
		f := func(ctx context.Context) *output { return w.readRes(ctx, 0) }
		a := cached(ctx, "s", f)
		b := cached(ctx, "s", f)
		out.merge(a)
		out.reads = append(out.reads, b.reads...)
		if w.c.NRes > 1 {
			out.merge(w.readRes(ctx, 1))
		}
	case "twolevel":
		out.merge(cached(ctx, "outer", func(ctx context.Context) *output {
			o := &output{}
			o.merge(cached(ctx, "inner", func(ctx context.Context) *output { return w.readRes(ctx, 0) }))
			if w.c.NRes > 1 {
				o.merge(w.readRes(ctx, 1))
			}
			return o
		}))
	case "cond":
		o := cached(ctx, "c0", func(ctx context.Context) *output { return w.readRes(ctx, 0) })
		out.merge(o)
		if w.c.NRes > 1 && o.reads[0].ver%2 == 1 {
			out.merge(cached(ctx, "c1", func(ctx context.Context) *output { return w.readRes(ctx, 1) }))
		}
	case "purge":
		out.merge(cached(ctx, "p0", func(ctx context.Context) *output { return w.readRes(ctx, 0) }))
		reactive.PurgeCache(ctx)
		if w.c.NRes > 1 {
			out.merge(cached(ctx, "p1", func(ctx context.Context) *output { return w.readRes(ctx, 1) }))
		}
	case "after":
		out.merge(w.readRes(ctx, 0))
		if rn.afterLeft > 0 {
			rn.afterLeft--
			usedAfter = true
			reactive.InvalidateAfter(ctx, 10*time.Millisecond)
		} else {
			// a far deadline that Stop / supersession must disarm through the cleanup callback
			reactive.InvalidateAfter(ctx, time.Hour)
		}
	}
	w.touch()
	rn.running--
	if cacheErr == reactive.RetrySentinelError && w.c.Retry == 2 {
		return nil, cacheErr // the rerunner retries; this attempt's resources must be released
	}
	if cacheErr != nil {
		if ctx.Err() == nil {
			w.x.Fail("cache-error", "", "reactive.Cache failed although the context is live: %v", cacheErr)
		}
		rn.failed = true
		return nil, cacheErr
	}
	if w.c.Retry == 1 && retryNow(out) {
		if usedAfter {
			rn.afterLeft++ // the failed attempt does not count as one of the two short-deadline runs
		}
		return nil, reactive.RetrySentinelError
	}
	if w.c.Fail && len(out.reads) > 0 && out.reads[0].ver >= 2 {
		rn.failed = true
		return nil, errStop
	}
	rn.runs++
	if rn.maxRuns > 0 && rn.runs > rn.maxRuns {
		rn.w.x.Fail("no-rerun-without-a-write", "", "runner %d ran %d times after settling although only %d writes followed", rn.id, rn.runs, rn.maxRuns-1)
	}
	rn.last = out
	rt.Note("compute done: reads %v", out.reads)
	return out, nil
}

func item(c cfg) *explore.Item {
	bound := -1
	if c.Pre != "" || c.Retry != 0 {
		bound = 3 // chained histories and transient failures: the same bound in both tiers (longer executions)
	}
	return &explore.Item{Name: c.name(), Bound: bound, MaxSteps: 6000, Body: func(x *explore.Exec) {
		reactive.WriteThenReadDelay = time.Duration(c.WTR) * time.Millisecond
		w := &world{x: x, c: c, clean: map[*reactive.Resource]int{}}
		for i := 0; i < c.NRes; i++ {
			w.vers = append(w.vers, rt.NewVar(0))
			w.long = append(w.long, reactive.NewResource())
			w.reg = append(w.reg, nil)
		}
		start := vtime.Now()
		var runners []*runner
		var cancelParent context.CancelFunc
		for i := 0; i < c.Runners; i++ {
			rn := &runner{w: w, id: i}
			if c.Shape == "after" {
				rn.afterLeft = 2
			}
			runners = append(runners, rn)
			parent := context.Background()
			if c.Stops == 1 && i == 0 {
				parent, cancelParent = rt.WithCancel(parent)
			}
			rn.rr = reactive.NewRerunner(parent, rn.compute, time.Duration(c.MinInt)*time.Millisecond, c.Spawn)
		}
		// chained history: reach a non-initial state (orphaned / re-used cached children, several generations of
		// per-run resources) one settled step at a time, then explore the concurrent phase from there
		for _, ch := range c.Pre {
			rt.QuiesceWithin(time.Minute)
			w.write(int(ch - '0'))
		}
		if c.Pre != "" {
			rt.QuiesceWithin(time.Minute)
		}
		plainCleanups := 0
		if c.Plain {
			w.long[0].Cleanup(func() { plainCleanups++ })
			rt.QuiesceWithin(time.Minute)
			for _, rn := range runners {
				rn.maxRuns = rn.runs + c.Writers*c.Writes + 1
			}
			rt.Go(func() { reactive.AddDependency(context.Background(), w.long[0], nil) })
		}
		for wi := 0; wi < c.Writers; wi++ {
			wi := wi
			rt.Go(func() {
				for k := 0; k < c.Writes; k++ {
					w.write((wi + k) % c.NRes)
				}
			})
		}
		if c.Stop {
			rn := runners[0]
			stopper := func() {
				if cancelParent != nil {
					cancelParent() // the creator's context ends first (client went away), then Stop is called
				}
				rn.rr.Stop()
				w.touch()
				if rn.running != 0 {
					x.Fail("stop-waits", "", "Stop returned while a run of runner %d was in progress", rn.id)
				}
				rn.stopped = true
			}
			rt.Go(stopper)
			if c.Stops == 2 {
				rt.Go(stopper)
			}
		}
		rt.QuiesceWithin(time.Minute)

		// ---- oracle at quiescence ----
		if c.Plain && plainCleanups > 0 && !runners[0].stopped && !runners[0].failed {
			x.Fail("cleanup-live", "", "the cleanup of the shared long-lived resource ran %d time(s) while a live computation depends on it", plainCleanups)
		}
		live := map[*reactive.Resource]bool{}
		held := map[*reactive.Resource]bool{} // a failed, not yet stopped rerunner still holds its last good computation
		for _, rn := range runners {
			if rn.failed && !rn.stopped && rn.last != nil {
				for _, r := range rn.last.owns {
					held[r] = true
				}
			}
			if rn.stopped || rn.failed {
				continue
			}
			if rn.last == nil {
				x.Fail("initial-run", "", "runner %d never completed a run", rn.id)
				continue
			}
			for _, rd := range rn.last.reads {
				if cur := w.vers[rd.res].Peek(); cur != rd.ver {
					x.Fail("fresh-at-quiescence", "", "runner %d: last run used version %d of item %d, current is %d (runs=%d)", rn.id, rd.ver, rd.res, cur, rn.runs)
				}
			}
			for _, r := range rn.last.owns {
				live[r] = true
			}
			if c.Shape == "after" && rn.runs < 3 {
				x.Fail("invalidate-after", "", "runner %d ran %d times, want >=3 (two InvalidateAfter deadlines passed)", rn.id, rn.runs)
			}
		}
		for _, r := range w.allRes {
			n := w.clean[r]
			if live[r] && n != 0 {
				x.Fail("cleanup-live", "", "a resource of the current computation was cleaned up")
			}
			if !live[r] && !held[r] && n != 1 {
				x.Fail("cleanup-exactly-once", "", "a superseded/stopped resource has cleanup count %d", n)
			}
		}
		allStopped := true
		for _, rn := range runners {
			if !(rn.stopped || rn.failed) {
				allStopped = false
			}
		}
		if c.Shape == "after" {
			want := 0
			for _, rn := range runners {
				if !(rn.stopped || rn.failed) {
					want++
				}
			}
			if got := rt.Cur().ArmedTimers(); got != want {
				x.Fail("timer-released", "", "%d InvalidateAfter timers armed at quiescence, want %d (one per live computation)", got, want)
			}
		}
		_ = allStopped
		tot := 0
		for _, rn := range runners {
			tot += rn.runs
		}
		x.Outcome("runs=%d", tot)
		x.Nontrivial()
		// finally stop everything; afterwards every per-run resource must be cleaned exactly once
		for _, rn := range runners {
			rn.rr.Stop()
			rn.stopped = true
		}
		rt.QuiesceWithin(time.Minute)
		for _, r := range w.allRes {
			if n := w.clean[r]; n != 1 {
				x.Fail("cleanup-after-stop", "", "after Stop a resource has cleanup count %d", n)
			}
		}
		if got := rt.Cur().ArmedTimers(); c.Shape == "after" && got != 0 {
			x.Fail("timer-released", "", "%d InvalidateAfter timers still armed after Stop", got)
		}
		_ = start
	}}
}

func c04configs(tier string) []cfg {
	var out []cfg
	for _, mode := range []string{"strobe", "perrun"} {
		for _, shape := range []string{"direct", "cache", "shared", "cond"} {
			if shape == "cond" && mode == "strobe" {
				continue // a strobed resource nobody depends on any more is released for good (documented contract)
			}
			for _, spawn := range []bool{false, true} {
				for _, stop := range []bool{false, true} {
					out = append(out, cfg{Shape: shape, Mode: mode, NRes: 1, Writers: 1, Writes: 2, Spawn: spawn, Stop: stop, Runners: 1})
				}
				out = append(out, cfg{Shape: shape, Mode: mode, NRes: 2, Writers: 2, Writes: 1, Spawn: spawn, Runners: 1})
			}
			out = append(out, cfg{Shape: shape, Mode: mode, NRes: 1, Writers: 1, Writes: 2, MinInt: 5, Runners: 1})
			out = append(out, cfg{Shape: shape, Mode: mode, NRes: 1, Writers: 1, Writes: 2, WTR: 7, Stop: true, Runners: 1})
			out = append(out, cfg{Shape: shape, Mode: mode, NRes: 1, Writers: 1, Writes: 3, Fail: true, Runners: 1})
		}
		if mode == "perrun" { // a strobed resource whose only dependant was stopped is released for good (usage contract)
			out = append(out, cfg{Shape: "direct", Mode: mode, NRes: 1, Writers: 1, Writes: 2, Runners: 2, Stop: true})
		}
		out = append(out, cfg{Shape: "direct", Mode: mode, NRes: 1, Writers: 1, Writes: 1, Runners: 2, Spawn: true})
	}
	out = append(out, cfg{Shape: "after", Mode: "perrun", NRes: 1, Writers: 1, Writes: 1, Runners: 1})
	out = append(out, cfg{Shape: "after", Mode: "perrun", NRes: 1, Writers: 1, Writes: 1, Runners: 1, Stop: true})
	// Stop after the creator's context was cancelled, and two concurrent Stops
	for _, stops := range []int{1, 2} {
		for _, shape := range []string{"direct", "cache"} {
			out = append(out, cfg{Shape: shape, Mode: "perrun", NRes: 1, Writers: 1, Writes: 1, Runners: 1, Stop: true, Stops: stops})
		}
		out = append(out, cfg{Shape: "direct", Mode: "strobe", NRes: 1, Writers: 1, Writes: 2, Runners: 1, Stop: true, Spawn: true, Stops: stops})
	}
	// from non-initial states: a cached child that was used, skipped by a later run and used again (cond: child c1 only
	// while item 0 is odd); a purged cache; several generations of resources - then one concurrent write per item
	for _, pre := range []string{"0", "00", "000", "0100"} {
		out = append(out, cfg{Shape: "cond", Mode: "perrun", NRes: 2, Writers: 2, Writes: 1, Runners: 1, Pre: pre})
	}
	out = append(out, cfg{Shape: "purge", Mode: "perrun", NRes: 2, Writers: 2, Writes: 1, Runners: 1, Pre: "01"})
	out = append(out, cfg{Shape: "twolevel", Mode: "perrun", NRes: 2, Writers: 2, Writes: 1, Runners: 1, Pre: "10"})
	out = append(out, cfg{Shape: "twolevel", Mode: "strobe", NRes: 2, Writers: 2, Writes: 1, Runners: 1, Pre: "10"})
	out = append(out, cfg{Shape: "shared", Mode: "perrun", NRes: 2, Writers: 2, Writes: 1, Runners: 1, Stop: true, Pre: "01"})
	for _, shape := range []string{"direct", "cache"} {
		out = append(out, cfg{Shape: shape, Mode: "perrun", NRes: 1, Writers: 1, Writes: 2, Runners: 1, Retry: 1},
			cfg{Shape: shape, Mode: "strobe", NRes: 1, Writers: 1, Writes: 2, Runners: 1, Retry: 1, Stop: true})
	}
	if tier == "thorough" {
		for _, mode := range []string{"strobe", "perrun"} {
			for _, shape := range []string{"direct", "cache", "twolevel"} {
				out = append(out, cfg{Shape: shape, Mode: mode, NRes: 2, Writers: 2, Writes: 2, Runners: 1, Stop: true})
				out = append(out, cfg{Shape: shape, Mode: mode, NRes: 2, Writers: 1, Writes: 3, Runners: 1, Spawn: true, WTR: 3, MinInt: 2})
			}
		}
	}
	return out
}

func c08configs(tier string) []cfg {
	var out []cfg
	for _, shape := range []string{"cache", "shared", "twolevel", "cond", "purge"} {
		for _, stop := range []bool{false, true} {
			out = append(out, cfg{Shape: shape, Mode: "perrun", NRes: 2, Writers: 1, Writes: 2, Stop: stop, Runners: 1})
			out = append(out, cfg{Shape: shape, Mode: "perrun", NRes: 2, Writers: 2, Writes: 1, Stop: stop, Spawn: true, Runners: 1})
		}
		out = append(out, cfg{Shape: shape, Mode: "strobe", NRes: 2, Writers: 2, Writes: 1, Runners: 1})
		if shape == "cond" {
			out = out[:len(out)-1]
		}
	}
	out = append(out, cfg{Shape: "after", Mode: "perrun", NRes: 1, Writers: 1, Writes: 1, Runners: 1, Stop: true})
	out = append(out, cfg{Shape: "after", Mode: "perrun", NRes: 1, Writers: 1, Writes: 2, Runners: 1})
	for _, pre := range []string{"00", "000", "0010"} {
		out = append(out, cfg{Shape: "cond", Mode: "perrun", NRes: 2, Writers: 2, Writes: 1, Runners: 1, Pre: pre})
	}
	// a transient failure (RetrySentinelError) of one attempt, at the top level or inside a cached child: the failed
	// attempt's resources are released, the retry converges
	for _, shape := range []string{"cache", "shared", "twolevel"} {
		for _, retry := range []int{1, 2} {
			out = append(out, cfg{Shape: shape, Mode: "perrun", NRes: 2, Writers: 1, Writes: 2, Runners: 1, Retry: retry})
			out = append(out, cfg{Shape: shape, Mode: "perrun", NRes: 2, Writers: 1, Writes: 1, Runners: 1, Retry: retry, Stop: true})
		}
	}
	out = append(out, cfg{Shape: "direct", Mode: "perrun", NRes: 2, Writers: 1, Writes: 2, Runners: 1, Retry: 1},
		cfg{Shape: "after", Mode: "perrun", NRes: 1, Writers: 1, Writes: 1, Runners: 1, Retry: 1})
	out = append(out, cfg{Shape: "purge", Mode: "perrun", NRes: 2, Writers: 1, Writes: 2, Runners: 1, Pre: "10"})
	// a non-reactive reader of a resource a live computation depends on
	out = append(out, cfg{Shape: "direct", Mode: "strobe", NRes: 1, Writers: 1, Writes: 1, Runners: 1, Plain: true},
		cfg{Shape: "cache", Mode: "strobe", NRes: 2, Writers: 1, Writes: 1, Runners: 1, Plain: true},
		cfg{Shape: "cache", Mode: "strobe", NRes: 2, Writers: 1, Writes: 1, Runners: 1, Stop: true, Plain: true})
	// Stop after the creator's context was cancelled, and two concurrent Stops: everything is released all the same
	for _, stops := range []int{1, 2} {
		out = append(out, cfg{Shape: "cache", Mode: "perrun", NRes: 2, Writers: 1, Writes: 1, Runners: 1, Stop: true, Stops: stops},
			cfg{Shape: "after", Mode: "perrun", NRes: 1, Writers: 1, Writes: 1, Runners: 1, Stop: true, Stops: stops})
	}
	if tier == "thorough" {
		for _, shape := range []string{"cache", "twolevel", "cond", "purge"} {
			out = append(out, cfg{Shape: shape, Mode: "perrun", NRes: 2, Writers: 2, Writes: 2, Stop: true, Runners: 1})
			out = append(out, cfg{Shape: shape, Mode: "perrun", NRes: 2, Writers: 1, Writes: 3, Runners: 1, WTR: 3})
		}
	}
	return out
}

func runWith(cfgs func(string) []cfg) func(rp *explore.Report, tier string) {
	return func(rp *explore.Report, tier string) {
		for _, c := range cfgs(tier) {
			it := item(c)
			it.Split = true
			rp.Explore(it)
		}
	}
}

func init() {
	mk := func(name string) *explore.Item { return item(parsePlain(name)) }
	reg.Register(&reg.Harness{Property: "C04", Name: "c04/rerunner", Level: "model_checking", Bounds: [2]int{3, 4}, Run: runWith(c04configs), Item: mk,
		Rule: "items = dependency shape (direct/cached/shared child/conditional/InvalidateAfter) x resource mode (strobed long-lived, per-run + Invalidate) x writers/writes x alwaysSpawnGoroutine x minRerunInterval x WriteThenReadDelay x stopper (also after the creator's context was cancelled, and two concurrent Stops) x 1-2 rerunners x failing computation; all interleavings within the deviation bound on the real reactive package; oracle: run overlap counter, no run after Stop returned, versions read by the last completed run == current versions at quiescence"})
	reg.Register(&reg.Harness{Property: "C08", Name: "c08/cache", Level: "model_checking", Bounds: [2]int{3, 5}, Run: runWith(c08configs), Item: mk,
		Rule: "items = cached sub-computation trees (1-2 cached children, shared child, two-level, conditional, PurgeCache inside a run, InvalidateAfter) x writers x stopper; oracle: versions embedded in the final output (through cached children) == current versions at quiescence; Cleanup callback count per resource <=1 always, ==1 for superseded/stopped and ==0 for live resources at quiescence, ==1 for all after Stop; InvalidateAfter timers disarmed by cleanup"})
}
