// Package reg is the harness registry used by cmd/vharness.
package reg

import "verif/explore"

type Harness struct {
	Property string
	Name     string
	Level    string // evidence level: model_checking | exploration
	// Run explores everything this harness covers for the tier into rp.
	Run func(rp *explore.Report, tier string)
	// Replay returns the item named in a violation file.
	Item func(name string) *explore.Item
	Rule string
	// Bounds are the deviation bounds for the quick and thorough tiers (0 = engine default 2/3).
	Bounds [2]int
}

var All []*Harness

func Register(h *Harness) { All = append(All, h) }
