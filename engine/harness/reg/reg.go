// Package reg is the harness registry used by cmd/vharness.
package reg

import "verif/explore"

type Harness struct {
	Property string
	Name     string
	Level    string // evidence level: model_checking | exploration
	// Run explores everything this harness covers for the tier into rp.
	Run func(rp *explore.Report, tier string)
	// Replay returns the item named in a violation file.
	Item func(name string) *explore.Item
	Rule string
}

var All []*Harness

func Register(h *Harness) { All = append(All, h) }
