package serverh

import (
	"context"
	"encoding/json"
	"fmt"
	"reflect"
	"sort"
	"strings"
	"time"

	"github.com/samsarahq/thunder/diff"
	"github.com/samsarahq/thunder/graphql"
	"github.com/samsarahq/thunder/merge"
	"github.com/samsarahq/thunder/reactive"
	"verif/explore"
	"verif/fix/gqlfix"
	"verif/fix/refmerge"
	"verif/harness/reg"
	"vrt/rt"
	"vrt/vchan"
)

type cfg struct {
	Client []string // S:id:query | U:id | M:id:v | MF:id | MP:id | E | X | J | C
	Env    []string // change names applied by the environment thread
	Pre    []string // changes applied before the connection starts
	Max    int      // max subscriptions (0 = default)
	Exec   string   // "fifo" (sequential executor) | "go" (goroutine per unit)
	Cancel bool     // a thread cancels the connection context
	Spawn  bool     // alwaysSpawnGoroutine
	Deep   int      // deviation bound for this item in every tier (0 = the tier's bound)
	Mw     int      // pass-through middlewares registered on the connection (each is a scheduling point)
	Chain  []string // data changes applied one at a time by the main thread, each after the system has settled
}

func (c cfg) name() string {
	return fmt.Sprintf("client=%s env=%s pre=%s max=%d exec=%s cancel=%t spawn=%t", strings.Join(c.Client, ","), strings.Join(c.Env, ","), strings.Join(c.Pre, ","), c.Max, c.Exec, c.Cancel, c.Spawn) + c.deep()
}

func (c cfg) deep() string {
	s := ""
	if c.Deep != 0 {
		s += fmt.Sprintf(" deep=%d", c.Deep)
	}
	if len(c.Chain) > 0 {
		s += " chain=" + strings.Join(c.Chain, ",")
	}
	if c.Mw > 0 {
		s += fmt.Sprintf(" mw=%d", c.Mw)
	}
	return s
}

func parse(s string) cfg {
	var c cfg
	for _, f := range strings.Fields(s) {
		kv := strings.SplitN(f, "=", 2)
		list := func() []string {
			if kv[1] == "" {
				return nil
			}
			return strings.Split(kv[1], ",")
		}
		switch kv[0] {
		case "client":
			c.Client = list()
		case "env":
			c.Env = list()
		case "pre":
			c.Pre = list()
		case "max":
			fmt.Sscan(kv[1], &c.Max)
		case "exec":
			c.Exec = kv[1]
		case "cancel":
			fmt.Sscan(kv[1], &c.Cancel)
		case "spawn":
			fmt.Sscan(kv[1], &c.Spawn)
		case "deep":
			fmt.Sscan(kv[1], &c.Deep)
		case "chain":
			c.Chain = list()
		case "mw":
			fmt.Sscan(kv[1], &c.Mw)
		}
	}
	return c
}

func frame(op string) (raw []byte, ev event) {
	p := strings.Split(op, ":")
	env := map[string]interface{}{}
	switch p[0] {
	case "S":
		env = map[string]interface{}{"id": p[1], "type": "subscribe", "message": map[string]interface{}{"query": queries[p[2]]}}
		ev = event{Kind: "send", Type: "subscribe", ID: p[1], Q: p[2]}
	case "U":
		env = map[string]interface{}{"id": p[1], "type": "unsubscribe"}
		ev = event{Kind: "send", Type: "unsubscribe", ID: p[1]}
	case "M":
		env = map[string]interface{}{"id": p[1], "type": "mutate", "message": map[string]interface{}{"query": "mutation { setFlag(v: " + p[2] + ") }"}}
		ev = event{Kind: "send", Type: "mutate", ID: p[1]}
	case "MF":
		env = map[string]interface{}{"id": p[1], "type": "mutate", "message": map[string]interface{}{"query": "mutation { fail }"}}
		ev = event{Kind: "send", Type: "mutate", ID: p[1]}
	case "MP":
		env = map[string]interface{}{"id": p[1], "type": "mutate", "message": map[string]interface{}{"query": "mutation { slowPanic }"}}
		ev = event{Kind: "send", Type: "mutate", ID: p[1]}
	case "E":
		env = map[string]interface{}{"id": "e", "type": "echo"}
		ev = event{Kind: "send", Type: "echo", ID: "e"}
	case "X":
		env = map[string]interface{}{"id": "x", "type": "bogus"}
		ev = event{Kind: "send", Type: "bogus", ID: "x"}
	case "J":
		env = map[string]interface{}{"id": "j", "type": "subscribe", "message": "not an object"}
		ev = event{Kind: "send", Type: "malformed", ID: "j"}
	default:
		panic("bad op " + op)
	}
	raw, _ = json.Marshal(env)
	return
}

type sub struct {
	q        string
	st       interface{} // folded with thunder's merge.Merge
	ref      interface{} // folded with the documented client format
	gotFirst bool
	ended    bool
	foldErr  string
}

func norm(v interface{}) interface{} {
	b, _ := json.Marshal(v)
	var out interface{}
	json.Unmarshal(b, &out)
	return out
}

func item(c cfg, oracle string) *explore.Item {
	bound := -1
	if c.Deep > 0 {
		bound = c.Deep
	} else if len(c.Chain) > 0 {
		bound = 1 // chained histories are long and mostly sequential: what matters is the sequence; one deviation per execution in both tiers
	}
	// how far ahead armed timers are waited for at a settling point; a subscription whose re-run keeps failing is
	// retried with a growing back-off for ever: those histories settle "within two seconds"
	horizon := time.Minute
	minRerun := time.Duration(0)
	if strings.Contains(strings.Join(c.Client, " "), "xboom") {
		horizon = 2 * time.Second
		minRerun = 400 * time.Millisecond // the retry back-off starts from the minimal re-run interval (0 would retry without pause)
	}
	return &explore.Item{Name: c.name(), Bound: bound, MaxSteps: 30000, MaxClock: 200, Body: func(x *explore.Exec) {
		reactive.WriteThenReadDelay = 0
		w := &world{x: x, clean: map[*reactive.Resource]int{}, in: vchan.Make[[]byte](64), failOnce: map[string]bool{}}
		st0 := initial()
		for _, p := range c.Pre {
			st0 = changes[changeIndex(p)].f(st0)
		}
		w.st = rt.NewVar(st0)
		w.schema = w.buildSchema()
		ctx, cancel := rt.WithCancel(context.Background())
		opts := []graphql.ConnectionOption{
			graphql.WithSubscriptionLogger(&slog{w}),
			graphql.WithMinRerunInterval(minRerun),
			graphql.WithAlwaysSpawnGoroutineFunc(func(context.Context, *graphql.Query) bool { return c.Spawn }),
		}
		if c.Exec != "go" {
			opts = append(opts, graphql.WithExecutor(graphql.NewExecutor(gqlfix.FIFO{})))
		}
		if c.Max > 0 {
			opts = append(opts, graphql.WithMaxSubscriptions(c.Max))
		}
		conn := graphql.CreateConnection(ctx, &sock{w}, w.schema, opts...)
		for i := 0; i < c.Mw; i++ {
			conn.Use(func(input *graphql.ComputationInput, next graphql.MiddlewareNextFunc) *graphql.ComputationOutput {
				rt.Yield()
				return next(input)
			})
		}
		served := rt.NewVar(false)
		rt.Go(func() {
			conn.ServeJSONSocket()
			served.Store(true)
		})
		closedByScript := false
		rt.Go(func() {
			for _, op := range c.Client {
				if op == "C" {
					w.record(event{Kind: "send", Type: "close"})
					w.in.Close()
					return
				}
				raw, ev := frame(op)
				w.record(ev)
				w.in.Send(raw)
			}
		})
		for _, op := range c.Client {
			if op == "C" {
				closedByScript = true
			}
		}
		if len(c.Env) > 0 {
			rt.Go(func() {
				for _, e := range c.Env {
					w.apply(changeIndex(e))
				}
			})
		}
		if c.Cancel {
			rt.Go(func() { cancel() })
		}
		rt.QuiesceWithin(horizon)
		// a chained history: each change lands on a settled system (runs complete, caches cleaned, resources released)
		onlySubscribes := true
		for _, op := range c.Client {
			if !strings.HasPrefix(op, "S:") {
				onlySubscribes = false
			}
		}
		lastGood := map[string]interface{}{}
		for _, e := range c.Chain {
			w.apply(changeIndex(e))
			rt.QuiesceWithin(horizon)
			if oracle == "lifecycle-only" || !onlySubscribes {
				continue
			}
			// convergence is judged after every settled step, not only at the end of the history
			mid := map[string]*sub{}
			for _, ev := range w.events {
				switch {
				case ev.Kind == "send" && ev.Type == "subscribe":
					if mid[ev.ID] == nil {
						mid[ev.ID] = &sub{q: ev.Q}
					}
				case ev.Kind == "write" && ev.Type == "error":
					if s := mid[ev.ID]; s != nil {
						s.ended = true
					}
				case ev.Kind == "write" && ev.Type == "update":
					if s := mid[ev.ID]; s != nil && !s.ended {
						var d interface{}
						json.Unmarshal(ev.Msg, &d)
						s.st, _ = merge.Merge(s.st, d)
						s.ref, _ = refmerge.Merge(s.ref, d)
					}
				}
			}
			var midIDs []string
			for id := range mid {
				midIDs = append(midIDs, id)
			}
			sort.Strings(midIDs)
			for _, id := range midIDs {
				s := mid[id]
				if s.ended {
					continue
				}
				want, err := gqlfix.Exec(context.Background(), w.schema, gqlfix.FIFO{}, queries[s.q], nil)
				if err != nil {
					// the query fails on the present data (a failing re-run is retried, the client keeps what it had):
					// what the client holds must still be the answer to the last data on which the query succeeded -
					// never data of a failed run
					if good, ok := lastGood[id]; ok && !reflect.DeepEqual(norm(s.st), good) {
						x.Fail("no-partial-data", "serverh/no-partial-data/"+s.q, "after the settled change %q the query fails (%.80v), yet the client state of %s (%s) is %s; the last successful answer was %s", e, err, id, s.q, gqlfix.JS(norm(s.st)), gqlfix.JS(good))
					}
					continue
				}
				want = norm(diff.StripKey(want))
				lastGood[id] = want
				if got := norm(s.st); !reflect.DeepEqual(got, want) {
					x.Fail("converges", "serverh/converges-step/"+s.q, "after the settled change %q the client state of %s (%s) folded with merge.Merge is %s, the query now gives %s", e, id, s.q, gqlfix.JS(got), gqlfix.JS(want))
				}
				if got := norm(s.ref); !reflect.DeepEqual(got, want) {
					x.Fail("converges-client-format", "serverh/converges-ref-step/"+s.q, "after the settled change %q the client state of %s (%s) folded per the documented format is %s, the query now gives %s", e, id, s.q, gqlfix.JS(got), gqlfix.JS(want))
				}
			}
			rt.QuiesceWithin(horizon) // let the reference executions' throw-away resources drain
		}

		// ---------- client model: fold the event log ----------
		subs := map[string]*sub{}
		pendingDup := map[string]int{}
		sendIdx := 0
		type unsubAt struct {
			id  string
			msg int
		}
		var unsubs []unsubAt
		sanitised := map[string]bool{"Internal server error": true, "visible to the client": true, "wrapped visible message": true, "could not load devices": true, "lookup failed": true,
			"duplicate subscription": true, "too many subscriptions": true, "unknown message type": true}
		errCount := map[string]int{}
		failures := map[string]int{}
		for _, ev := range w.events {
			switch {
			case ev.Kind == "send":
				if ev.Type == "close" {
					continue
				}
				switch ev.Type {
				case "subscribe":
					if s := subs[ev.ID]; s != nil && !s.ended {
						pendingDup[ev.ID]++
					} else {
						subs[ev.ID] = &sub{q: ev.Q}
					}
				case "mutate":
					if s := subs[ev.ID]; s != nil && !s.ended {
						pendingDup[ev.ID]++ // refused as a duplicate id; the error envelope is about the mutation
					}
				case "unsubscribe":
					if s := subs[ev.ID]; s != nil {
						s.ended = true
					}
					unsubs = append(unsubs, unsubAt{ev.ID, sendIdx})
				}
				sendIdx++
			case ev.Kind == "write" && ev.Type == "update":
				s := subs[ev.ID]
				if s == nil || s.ended {
					continue // judged by the no-update-after-unsubscribe clause below
				}
				var d interface{}
				json.Unmarshal(ev.Msg, &d)
				if !s.gotFirst {
					s.gotFirst = true
				}
				nv, err := merge.Merge(s.st, d)
				if err != nil {
					s.foldErr = "merge.Merge: " + err.Error()
				}
				s.st = nv
				rv, err := refmerge.Merge(s.ref, d)
				if err != nil {
					s.foldErr = "client-format merge: " + err.Error()
				}
				s.ref = rv
			case ev.Kind == "write" && ev.Type == "error":
				var msg string
				json.Unmarshal(ev.Msg, &msg)
				errCount[ev.ID]++
				ok := sanitised[msg]
				for k := range sanitised {
					if strings.HasSuffix(msg, k) { // client errors such as `unknown field "x"` are forwarded verbatim (they are marked safe)
						ok = true
					}
				}
				if !ok && !strings.Contains(msg, "unknown field") && !strings.Contains(msg, "failed to parse") {
					x.Fail("error-sanitised", "serverh/error-sanitised", "error envelope for %q carries %q", ev.ID, msg)
				}
				refusal := msg == "duplicate subscription" || msg == "too many subscriptions"
				if refusal && pendingDup[ev.ID] > 0 {
					pendingDup[ev.ID]--
				} else if s := subs[ev.ID]; s != nil {
					if !refusal {
						failures[ev.ID]++
					}
					if s.gotFirst && !s.ended {
						x.Fail("error-after-first-update", "serverh/error-after-update", "subscription %s received an error envelope %q after its first update", ev.ID, msg)
					}
					s.ended = true
				}
			}
		}
		connectionDown := closedByScript || c.Cancel || w.closed
		// (e) convergence at quiescence
		if oracle != "lifecycle-only" && !connectionDown {
			for id, s := range subs {
				if s.ended {
					continue
				}
				if !s.gotFirst {
					x.Fail("first-update", "serverh/first-update/"+s.q, "subscription %s (%s) was accepted but never received an update", id, s.q)
					continue
				}
				if s.foldErr != "" {
					x.Fail("fold", "serverh/fold/"+s.q, "subscription %s: %s", id, s.foldErr)
					continue
				}
				want, err := gqlfix.Exec(context.Background(), w.schema, gqlfix.FIFO{}, queries[s.q], nil)
				if err != nil {
					continue // the query fails on the final data: nothing to converge to
				}
				want = norm(diff.StripKey(want))
				if got := norm(s.st); !reflect.DeepEqual(got, want) {
					x.Fail("converges", "serverh/converges/"+s.q, "client state of %s (%s) folded with merge.Merge is %s, the query now gives %s", id, s.q, gqlfix.JS(got), gqlfix.JS(want))
				}
				if got := norm(s.ref); !reflect.DeepEqual(got, want) {
					x.Fail("converges-client-format", "serverh/converges-ref/"+s.q, "client state of %s (%s) folded per the documented format is %s, the query now gives %s", id, s.q, gqlfix.JS(got), gqlfix.JS(want))
				}
			}
			rt.QuiesceWithin(horizon) // let the reference executions' throw-away resources drain
		}
		// (d) no update after the server processed an unsubscribe (until it starts handling a later subscribe of that id)
		for _, u := range unsubs {
			resub := -1
			for j := u.msg + 1; j < len(c.Client); j++ {
				if strings.HasPrefix(c.Client[j], "S:"+u.id+":") {
					resub = j
					break
				}
			}
			after := false
			if resub == u.msg+1 {
				continue // the very next message re-subscribes the id: no window to observe
			}
			for _, ev := range w.events {
				if ev.Kind == "processed" && ev.N == u.msg+1 {
					after = true
					continue
				}
				if !after {
					continue
				}
				if ev.Kind == "processed" && resub >= 0 && ev.N >= resub {
					break
				}
				if ev.Kind == "write" && ev.Type == "update" && ev.ID == u.id {
					x.Fail("no-update-after-unsubscribe", "serverh/update-after-unsubscribe", "an update for %q was written after the server had processed its unsubscribe", u.id)
				}
			}
		}
		// an initially failing subscription is reported exactly once
		for id, n := range failures {
			sends := 0
			for _, op := range c.Client {
				if strings.HasPrefix(op, "S:"+id+":") || strings.HasPrefix(op, "M:"+id+":") || strings.HasPrefix(op, "MF:"+id) || strings.HasPrefix(op, "MP:"+id) {
					sends++
				}
			}
			if n > sends {
				x.Fail("failure-reported-once", "serverh/failure-reported-once", "%d request(s) with id %s produced %d failure envelopes", sends, id, n)
			}
		}
		_ = errCount
		nw := 0
		for _, ev := range w.events {
			if ev.Kind == "write" {
				nw++
			}
		}
		x.Outcome("writes=%d subs=%d", nw, len(subs))
		x.Nontrivial()

		// ---------- lifecycle: close the connection and drain ----------
		if oracle != "lifecycle" {
			if !closedByScript {
				w.in.Close()
			}
			cancel()
			return
		}
		if !closedByScript {
			w.record(event{Kind: "send", Type: "close"})
			w.in.Close()
		}
		rt.QuiesceWithin(horizon)
		if !served.Peek() {
			x.Fail("serve-returns", "serverh/serve-returns", "ServeJSONSocket did not return after the socket closed")
		}
		execsBefore, writesBefore := w.execs, len(w.events)
		w.apply(changeIndex("flag++"))
		w.apply(changeIndex("edit"))
		rt.QuiesceWithin(horizon)
		if w.execs != execsBefore {
			x.Fail("no-run-after-close", "serverh/no-run-after-close", "%d resolver executions happened after the connection had closed and drained", w.execs-execsBefore)
		}
		for _, ev := range w.events[writesBefore:] {
			if ev.Kind == "write" {
				x.Fail("no-write-after-close", "serverh/no-write-after-close", "a %s envelope for %q was written after the connection had closed", ev.Type, ev.ID)
			}
		}
		for _, r := range w.all {
			if w.clean[r] != 1 {
				x.Fail("resources-released", "serverh/resources-released", "a reactive resource has cleanup count %d after the connection closed", w.clean[r])
				break
			}
		}
		// subscription logger: exactly one Unsubscribe per Subscribe
		active := map[string]bool{}
		seen := map[string]bool{}
		for _, ev := range w.events {
			if ev.Kind != "log" {
				continue
			}
			switch ev.Type {
			case "Subscribe":
				if active[ev.ID] {
					x.Fail("logger-sequence", "serverh/logger/double-subscribe", "Subscribe(%s) logged while that id was still subscribed", ev.ID)
				}
				active[ev.ID], seen[ev.ID] = true, true
			case "Unsubscribe":
				if !active[ev.ID] && seen[ev.ID] {
					x.Fail("logger-sequence", "serverh/logger/double-unsubscribe", "a second Unsubscribe(%s) was logged for one Subscribe", ev.ID)
				}
				active[ev.ID] = false
			}
		}
		for id, a := range active {
			if a {
				x.Fail("logger-sequence", "serverh/logger/missing-unsubscribe", "Subscribe(%s) was never followed by an Unsubscribe although the connection closed", id)
			}
		}
	}}
}

// ---------- configurations ----------

func c02configs(tier string) []cfg {
	var out []cfg
	qs := []string{"flag", "items", "thing", "maybe", "blobs"}
	envFor := map[string][]string{
		"flag":   {"flag++"},
		"items":  {"reorder", "insert", "delete", "edit", "clear"},
		"blobs":  {"reorder", "insert", "edit"},
		"scaled": {"flag++", "reorder"},
		"thing":  {"union-switch", "union-null", "union-plain"},
		"maybe":  {"maybe-toggle", "flag++"},
	}
	for _, q := range qs {
		for _, e := range envFor[q] {
			out = append(out, cfg{Client: []string{"S:a:" + q}, Env: []string{e}})
			out = append(out, cfg{Client: []string{"S:a:" + q, "U:a"}, Env: []string{e}})
		}
		out = append(out, cfg{Client: []string{"S:a:" + q}, Env: envFor[q][:1], Exec: "go"})
	}
	out = append(out,
		cfg{Client: []string{"S:a:items"}, Env: []string{"insert", "reorder"}},
		cfg{Client: []string{"S:a:items"}, Env: []string{"delete", "insert"}},
		cfg{Client: []string{"S:a:thing"}, Env: []string{"union-null", "union-null"}},
		cfg{Client: []string{"S:a:flag", "S:b:items"}, Env: []string{"flag++", "edit"}},
		cfg{Client: []string{"S:a:flag", "S:b:maybe"}, Env: []string{"flag++"}},
		cfg{Client: []string{"S:a:flag", "M:m:5"}},
		// one Expensive field with an argument under two aliases (six memoised units per run: explored at bound 1)
		cfg{Client: []string{"S:a:scaled"}, Env: []string{"flag++"}, Deep: 1},
		cfg{Client: []string{"S:a:scaled"}, Chain: []string{"reorder", "flag++"}},
		// a re-run that was scheduled by a data change and is about to start when the unsubscribe is handled
		cfg{Client: []string{"S:a:flag", "U:a", "E"}, Env: []string{"flag++"}, Deep: 3},
		cfg{Client: []string{"S:a:flag", "U:a", "S:a:flag"}, Env: []string{"flag++"}, Deep: 3},
		// ... and while a run that observes its cancellation is in flight (its failure closes the subscription by id)
		cfg{Client: []string{"S:a:slow", "U:a", "S:a:flag"}, Env: []string{"flag++"}, Deep: 3},
		cfg{Client: []string{"S:a:maybe", "M:m:5"}, Env: []string{"maybe-toggle"}},
		cfg{Client: []string{"S:a:flag", "U:a", "S:a:items"}, Env: []string{"flag++"}},
		cfg{Client: []string{"S:a:all"}, Env: []string{"insert", "maybe-toggle"}},
		cfg{Client: []string{"S:a:flag", "S:a:items"}, Env: []string{"flag++"}},
		cfg{Client: []string{"S:a:flag", "E", "X"}, Env: []string{"flag++"}},
		cfg{Client: []string{"S:a:flag"}, Env: []string{"flag++"}, Spawn: true},
		cfg{Client: []string{"S:a:slow", "U:a", "S:a:slow"}, Env: []string{"flag++"}},
		cfg{Client: []string{"S:a:slow"}, Env: []string{"flag++", "flag++"}},
		// a list that becomes empty, and non-empty again
		cfg{Client: []string{"S:a:items"}, Chain: []string{"clear", "insert", "clear"}},
		// a mutation that re-uses the id of a live subscription, then the unsubscribe
		cfg{Client: []string{"S:a:flag", "M:a:3", "U:a"}, Env: []string{"flag++"}},
		cfg{Client: []string{"S:a:items", "M:a:3", "U:a", "E"}, Env: []string{"edit"}},
		// middlewares on the connection (1 and 3: with and without spare capacity in the slice that holds them)
		cfg{Client: []string{"S:a:flag", "M:m:5"}, Env: []string{"flag++"}, Mw: 3},
		cfg{Client: []string{"S:a:flag", "M:m:5"}, Mw: 1},
		cfg{Client: []string{"S:a:items", "S:b:flag"}, Env: []string{"edit"}, Mw: 3},
		// an Expensive field on long-lived objects: cached across re-runs, dropped with the element, needed again later
		cfg{Client: []string{"S:a:people"}, Env: []string{"p-score"}},
		cfg{Client: []string{"S:a:people"}, Env: []string{"p-remove", "p-score1"}},
		cfg{Client: []string{"S:a:people"}, Chain: []string{"p-remove", "p-score", "p-add"}},
		cfg{Client: []string{"S:a:people"}, Chain: []string{"p-remove", "p-add"}, Env: []string{"p-score"}},
		cfg{Client: []string{"S:a:people"}, Chain: []string{"p-score1", "p-remove", "p-score", "p-add", "p-score"}},
		cfg{Client: []string{"S:a:items"}, Chain: []string{"delete", "insert", "edit", "reorder"}},
		cfg{Client: []string{"S:a:thing", "S:b:maybe"}, Chain: []string{"union-null", "maybe-toggle", "union-null", "maybe-toggle"}},
		cfg{Client: []string{"S:a:thing"}, Chain: []string{"union-plain", "union-plain", "union-switch", "union-plain", "union-null", "union-plain"}},
	)
	if tier == "thorough" {
		for _, q := range qs {
			for _, e1 := range envFor[q] {
				for _, e2 := range envFor[q] {
					out = append(out, cfg{Client: []string{"S:a:" + q}, Env: []string{e1, e2}})
				}
			}
			out = append(out, cfg{Client: []string{"S:a:" + q, "S:b:all", "U:a"}, Env: envFor[q][:1]})
		}
	}
	return out
}

func c17configs(tier string) []cfg {
	out := []cfg{
		{Client: []string{"S:a:flag"}},
		// the socket closes while a run that observes its cancellation is in flight
		{Client: []string{"S:a:slow", "C"}, Env: []string{"flag++"}, Deep: 3},
		{Client: []string{"S:a:slow", "S:b:flag", "C"}, Env: []string{"flag++"}},
		{Client: []string{"S:a:flag", "C"}, Env: []string{"flag++", "flag++"}, Mw: 1},
		// (subscribe immediately followed by its end: explored one deviation deeper in both tiers)
		{Client: []string{"S:a:flag", "C"}, Env: []string{"flag++"}, Deep: 3},
		{Client: []string{"S:a:flag", "U:a"}, Env: []string{"flag++"}, Deep: 3},
		{Client: []string{"S:a:flag", "U:a", "U:a"}},
		{Client: []string{"S:a:flag", "S:b:items"}, Env: []string{"edit"}},
		{Client: []string{"S:a:flag", "S:b:items"}, Max: 1, Env: []string{"flag++"}},
		{Client: []string{"S:a:flag", "S:a:items"}, Env: []string{"flag++"}},
		{Client: []string{"S:a:bad"}},
		{Client: []string{"S:a:boom"}, Pre: []string{"boom-error"}},
		{Client: []string{"S:a:boom", "S:b:flag"}, Pre: []string{"boom-panic"}, Env: []string{"flag++"}},
		{Client: []string{"S:a:boom"}, Env: []string{"boom-error", "boom-off"}},
		// a re-run (not the first run) fails once and is retried; then the subscription ends
		{Client: []string{"S:a:boom"}, Env: []string{"boom-error-once"}},
		{Client: []string{"S:a:boom", "S:b:flag"}, Chain: []string{"boom-error-once", "flag++"}},
		{Client: []string{"S:a:boom", "U:a"}, Env: []string{"boom-error-once"}},
		{Client: []string{"S:a:flag", "M:m:3"}},
		{Client: []string{"S:a:flag", "MF:m"}},
		{Client: []string{"M:m:3", "M:n:4"}},
		{Client: []string{"S:a:flag", "J", "X", "E"}},
		{Client: []string{"S:a:flag"}, Cancel: true, Env: []string{"flag++"}},
		{Client: []string{"S:a:items", "U:a", "S:a:flag"}, Env: []string{"flag++"}},
		{Client: []string{"S:a:flag", "U:b"}},
		{Client: []string{"S:a:flag"}, Exec: "go", Env: []string{"flag++"}},
		{Client: []string{"S:a:flag", "C"}, Spawn: true, Env: []string{"flag++"}},
		// unsubscribe / re-subscribe while a run that observes its cancellation is in flight
		{Client: []string{"S:a:slow", "U:a", "S:a:flag"}, Env: []string{"flag++"}, Deep: 3},
		{Client: []string{"S:a:slow", "U:a", "S:a:slow"}, Env: []string{"flag++"}, Deep: 3},
		{Client: []string{"S:a:slow", "S:b:flag", "U:a"}, Env: []string{"flag++"}, Exec: "go"},
		{Client: []string{"MP:a", "U:a", "S:a:flag"}, Env: []string{"flag++"}, Deep: 3},
		// colliding ids across message types
		{Client: []string{"S:a:flag", "M:a:3"}},
		{Client: []string{"M:a:3", "S:a:flag"}},
		{Client: []string{"M:a:3", "U:a", "S:a:flag"}, Env: []string{"flag++"}},
		// a mutation that re-uses the id of a subscription that has ended (the logger must not see a second Unsubscribe for it)
		{Client: []string{"S:a:flag", "U:a", "M:a:3"}},
	}
	if tier == "thorough" {
		out = append(out,
			cfg{Client: []string{"S:a:flag", "S:b:items", "U:a"}, Env: []string{"flag++", "edit"}},
			cfg{Client: []string{"S:a:flag", "M:a:3", "U:a"}, Env: []string{"flag++"}},
			cfg{Client: []string{"S:a:boom", "S:a:flag"}, Pre: []string{"boom-error"}},
			cfg{Client: []string{"MF:a", "S:a:flag"}, Env: []string{"flag++"}},
			cfg{Client: []string{"S:a:flag", "S:b:items", "C"}, Cancel: true},
		)
	}
	return out
}

func c16configs(tier string) []cfg {
	var out []cfg
	// an Expensive field whose resolver starts failing on a re-run, then another dependency of the query changes
	// (the failed field's cache entry must not survive the failed run; the retries back off, so the histories settle within the horizon)
	for _, mode := range []string{"safe", "error", "panic"} {
		out = append(out, cfg{Client: []string{"S:a:xboom"}, Chain: []string{"boom-" + mode, "flag++"}},
			cfg{Client: []string{"S:a:xboom"}, Chain: []string{"flag++", "boom-" + mode, "flag++", "flag++"}})
	}
	for _, mode := range []string{"error", "safe", "wrapped", "panic", "wrapcancel", "barecancel", "safecancel", "custom"} {
		pre := []string{"boom-" + mode}
		out = append(out, cfg{Client: []string{"S:a:boom"}, Pre: pre})
		out = append(out, cfg{Client: []string{"S:a:boom", "S:b:flag"}, Pre: pre, Env: []string{"flag++"}})
		out = append(out, cfg{Client: []string{"S:b:flag", "S:a:boom"}, Pre: pre, Env: []string{"flag++"}, Exec: "go"})
	}
	out = append(out, cfg{Client: []string{"MF:m", "S:a:flag"}, Env: []string{"flag++"}}, cfg{Client: []string{"S:a:bad", "J", "X"}})
	return out
}

func c15configs(tier string) []cfg {
	return []cfg{
		{Client: []string{"S:a:boom", "S:b:flag"}, Pre: []string{"boom-panic"}, Env: []string{"flag++"}},
		{Client: []string{"S:b:items", "S:a:boom"}, Pre: []string{"boom-panic"}, Env: []string{"edit"}, Exec: "go"},
		{Client: []string{"S:a:boom", "S:b:flag"}, Env: []string{"boom-panic", "boom-off"}},
		{Client: []string{"S:a:boom", "M:m:4", "S:b:flag"}, Pre: []string{"boom-panic"}},
		{Client: []string{"S:a:boom", "E", "S:b:maybe"}, Pre: []string{"boom-panic"}, Env: []string{"maybe-toggle"}},
		// a subscription cancelled while its resolver is executing (the resolver reports the cancellation): the request
		// ends, the connection keeps serving
		{Client: []string{"S:a:slow", "U:a", "E", "S:b:flag"}, Env: []string{"flag++"}, Deep: 3},
		{Client: []string{"S:a:slow", "S:b:flag", "C"}, Env: []string{"flag++"}},
		{Client: []string{"S:a:slow", "S:b:flag"}, Env: []string{"flag++"}, Cancel: true},
		// a panicking mutation that is unsubscribed while running, its id re-used by a live query straight away
		{Client: []string{"MP:a", "U:a", "S:a:flag"}, Env: []string{"flag++"}, Deep: 3},
		{Client: []string{"MP:a", "S:b:flag", "U:a"}, Env: []string{"flag++"}},
		{Client: []string{"S:b:flag", "MP:a", "S:a:items"}, Env: []string{"edit"}},
	}
}

func register(prop, name, oracle string, bounds [2]int, cfgs func(string) []cfg, rule string) {
	reg.Register(&reg.Harness{Property: prop, Name: name, Level: "model_checking", Bounds: bounds,
		Run: func(rp *explore.Report, tier string) {
			for _, c := range cfgs(tier) {
				it := item(c, oracle)
				it.Split = true
				rp.Explore(it)
			}
		},
		Item: func(n string) *explore.Item { return item(parse(n), oracle) },
		Rule: rule})
}

func init() {
	for _, c := range []string{"boom-safe", "boom-wrapped", "boom-error-once", "boom-wrapcancel", "boom-barecancel", "boom-safecancel", "boom-custom"} {
		mode := strings.TrimPrefix(c, "boom-")
		changes = append(changes, struct {
			name string
			f    func(s state) state
		}{c, func(s state) state { s.Boom = mode; return s }})
	}
	common := "real graphql.CreateConnection/ServeJSONSocket over a fake JSON socket; schema whose resolvers read an in-memory store through per-run reactive resources; client script thread, environment thread (data change + invalidation), optional context canceller; all schedules within the deviation bound. "
	register("C02", "c02/converge", "converge", [2]int{2, 3}, c02configs, common+"Items = client scripts (subscribe/unsubscribe/mutate/echo/bogus over ids a,b; queries: scalar, keyed list, union, nullable object) x environment changes (flag flip, reorder, insert, delete, edit, union member switch, union<->null, object<->null). Oracle: a client model folds every update envelope per id, in order, from nothing, with merge.Merge and with the documented client format; at quiescence every subscription the client considers open equals StripKey(Execute(query)) on the final store; the first envelope of an accepted subscription is an update; no update for an id after the server has read past its unsubscribe")
	register("C17", "c17/lifecycle", "lifecycle", [2]int{2, 3}, c17configs, common+"Items add colliding ids across message types, duplicate ids, max subscriptions, malformed frames, failing resolvers/mutations, context cancellation, scripted and final socket close. Oracle: SubscriptionLogger sequence per id alternates Subscribe/Unsubscribe and is balanced after close+drain; after close a data change + invalidation runs no resolver and writes nothing; every reactive resource has cleanup count 1; plus the C02 clauses for subscriptions that stay open")
	register("C15", "c15/panic-containment", "errors", [2]int{2, 3}, c15configs, common+"Part (c): a subscription whose resolver panics (on its first run, or on a re-run) next to healthy subscriptions, mutations and echo messages. Oracle: only the panicking request gets an error envelope (the fixed generic text, no panic text); the connection keeps serving and every other subscription converges to the final data")
	register("C16", "c16/ws-errors", "errors", [2]int{2, 3}, c16configs, common+"Items = failing field (plain error / SafeError / wrapped safe error / panic, with a secret marker in every unsafe text) in a subscription's first run, next to a healthy subscription, and failing mutations / invalid queries / malformed frames. Oracle: every error envelope carries SanitizedError() text or exactly 'Internal server error'; the secret marker never occurs in any envelope; an initially failing subscription gets exactly one error envelope and nothing afterwards; the healthy subscription converges")
}
