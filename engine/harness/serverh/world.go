// Package serverh drives the real websocket protocol server (graphql.CreateConnection +
// ServeJSONSocket) over a fake JSON socket, a reactive in-memory store and a client model.
// It serves C02 (convergence), C17 (lifecycle), C16 (sanitised errors) and C15c (panic containment).
package serverh

import (
	"context"
	"encoding/json"
	"errors"
	"fmt"
	"strings"

	"github.com/gorilla/websocket"
	"github.com/samsarahq/thunder/graphql"
	"github.com/samsarahq/thunder/graphql/schemabuilder"
	"github.com/samsarahq/thunder/reactive"
	"verif/explore"
	"vrt/rt"
	"vrt/vchan"
	"vrt/vsync"
)

const secret = "S3CR3T-internal-detail"

type Node struct {
	Id  int64
	Val string
}
type A struct {
	Id int64
	X  string
}
type B struct {
	Id int64
	Y  int64
}

// lookupError implements graphql.SanitizedError itself: the log text and the client text differ
type lookupError struct{}

func (lookupError) Error() string          { return "lookup failed on mysql://root:" + secret + "@db" }
func (lookupError) SanitizedError() string { return "lookup failed" }

// Person objects are long-lived: the resolver hands out the same pointers in every run, so an Expensive field's
// reactive.Cache key (source pointer + selection) is stable across re-runs.
type Person struct {
	Id int64
}

// C is a union member without a key field
type C struct {
	Z string
}
type U struct {
	schemabuilder.Union
	*A
	*B
	*C
}

// state is the (immutable) content of the store.
type Blob struct {
	Id  []byte
	Val string
}

type state struct {
	Flag  int64
	Items []Node
	Kind  string // "A" | "B" | ""  (union member or null)
	Maybe bool
	Boom  string // "" | "error" | "safe" | "wrapped" | "panic": how the boom field behaves
	// people currently listed (ids 1..3) and the score of each person (index = id)
	People []int64
	Scores [4]int64
}

func initial() state {
	return state{Flag: 0, Items: []Node{{1, "one"}, {2, "two"}, {3, "three"}}, Kind: "A", Maybe: true, People: []int64{1, 2, 3}, Scores: [4]int64{0, 10, 20, 30}}
}

// changes the environment can apply
var changes = []struct {
	name string
	f    func(s state) state
}{
	{"flag++", func(s state) state { s.Flag++; return s }},
	{"reorder", func(s state) state {
		if len(s.Items) > 1 {
			it := append([]Node{}, s.Items...)
			it[0], it[len(it)-1] = it[len(it)-1], it[0]
			s.Items = it
		}
		return s
	}},
	{"insert", func(s state) state {
		s.Items = append([]Node{{int64(10 + len(s.Items)), "new"}}, s.Items...)
		return s
	}},
	{"delete", func(s state) state {
		if len(s.Items) > 0 {
			s.Items = append([]Node{}, s.Items[1:]...)
		}
		return s
	}},
	{"clear", func(s state) state { s.Items = nil; return s }},
	{"edit", func(s state) state {
		if len(s.Items) > 0 {
			it := append([]Node{}, s.Items...)
			it[len(it)-1].Val += "!"
			s.Items = it
		}
		return s
	}},
	{"union-switch", func(s state) state {
		if s.Kind == "A" {
			s.Kind = "B"
		} else {
			s.Kind = "A"
		}
		return s
	}},
	{"union-plain", func(s state) state { // to the keyless member and back to a keyed one
		if s.Kind == "C" {
			s.Kind = "A"
		} else {
			s.Kind = "C"
		}
		return s
	}},
	{"union-null", func(s state) state {
		if s.Kind == "" {
			s.Kind = "B"
		} else {
			s.Kind = ""
		}
		return s
	}},
	{"maybe-toggle", func(s state) state { s.Maybe = !s.Maybe; return s }},
	{"p-remove", func(s state) state {
		var out []int64
		for _, id := range s.People {
			if id != 2 {
				out = append(out, id)
			}
		}
		s.People = out
		return s
	}},
	{"p-add", func(s state) state {
		for _, id := range s.People {
			if id == 2 {
				return s
			}
		}
		s.People = append(append([]int64{}, s.People...), 2)
		return s
	}},
	{"p-score", func(s state) state { s.Scores[2] += 79; return s }},
	{"p-score1", func(s state) state { s.Scores[1]++; return s }},
	{"boom-error", func(s state) state { s.Boom = "error"; return s }},
	{"boom-panic", func(s state) state { s.Boom = "panic"; return s }},
	{"boom-off", func(s state) state { s.Boom = ""; return s }},
}

func changeIndex(name string) int {
	for i, c := range changes {
		if c.name == name {
			return i
		}
	}
	panic("unknown change " + name)
}

var queries = map[string]string{
	"flag":   `{ flag }`,
	"items":  `{ items { id val } }`,
	"blobs":  `{ blobs { id val } }`,
	"scaled": `{ items { id a: scaled(by: 1) b: scaled(by: 10) } flag }`,
	"thing":  `{ thing { __typename ... on A { id x } ... on B { id y } } }`,
	"maybe":  `{ maybe { id val } flag }`,
	"all":    `{ flag items { id } maybe { val } }`,
	"boom":   `{ flag boom }`,
	"xboom":  `{ flag xboom }`,
	"people": `{ people { id score } }`,
	"slow":   `{ slow }`,
	"bad":    `{ nosuchfield }`,
}

type event struct {
	Kind string // "send" | "write" | "processed" | "log"
	ID   string
	Type string          // envelope / message type; for log: Subscribe|Unsubscribe
	Msg  json.RawMessage // envelope message
	N    int             // processed count
	Q    string          // query name for subscribe sends
}

type world struct {
	x        *explore.Exec
	obj      rt.Obj
	st       *rt.Var[state]
	regMu    vsync.Mutex
	reg      []*reactive.Resource
	regBoom  []*reactive.Resource // per-run resources that only the boom-* changes invalidate
	clean    map[*reactive.Resource]int
	all      []*reactive.Resource
	events   []event
	execs    int // resolver executions
	in       *vchan.Chan[[]byte]
	reads    int
	closed   bool
	schema   *graphql.Schema
	failOnce map[string]bool
}

func (w *world) touch() {
	if r := rt.Cur(); r != nil {
		r.TouchHB("world", &w.obj)
	}
}

func (w *world) record(e event) {
	w.touch()
	w.events = append(w.events, e)
}

// dep registers a fresh per-run resource (the livesql pattern) and returns the current store content.
func (w *world) dep(ctx context.Context) state {
	res := reactive.NewResource()
	w.regMu.Lock()
	w.reg = append(w.reg, res)
	w.all = append(w.all, res)
	w.regMu.Unlock()
	res.Cleanup(func() {
		w.regMu.Lock()
		for i, r := range w.reg {
			if r == res {
				w.reg = append(w.reg[:i:i], w.reg[i+1:]...)
				break
			}
		}
		w.clean[res]++
		n := w.clean[res]
		w.regMu.Unlock()
		if n > 1 {
			w.x.Fail("cleanup<=1", "", "a resource was cleaned up %d times", n)
		}
	})
	reactive.AddDependency(ctx, res, nil)
	w.touch()
	w.execs++
	return w.st.Load()
}

func (w *world) apply(ci int) {
	w.st.Update(changes[ci].f)
	rt.Note("data change %s", changes[ci].name)
	w.invalidateAll()
	if strings.HasPrefix(changes[ci].name, "boom-") {
		w.regMu.Lock()
		rs := append([]*reactive.Resource{}, w.regBoom...)
		w.regMu.Unlock()
		for _, r := range rs {
			r.Invalidate()
		}
	}
}

// depBoom registers a per-run resource that only the boom-* changes invalidate (a dependency of its own, next to
// the store-wide one of the other resolvers).
func (w *world) depBoom(ctx context.Context) state {
	res := reactive.NewResource()
	w.regMu.Lock()
	w.regBoom = append(w.regBoom, res)
	w.all = append(w.all, res)
	w.regMu.Unlock()
	res.Cleanup(func() {
		w.regMu.Lock()
		for i, r := range w.regBoom {
			if r == res {
				w.regBoom = append(w.regBoom[:i:i], w.regBoom[i+1:]...)
				break
			}
		}
		w.clean[res]++
		n := w.clean[res]
		w.regMu.Unlock()
		if n > 1 {
			w.x.Fail("cleanup<=1", "", "a resource was cleaned up %d times", n)
		}
	})
	reactive.AddDependency(ctx, res, nil)
	w.touch()
	w.execs++
	return w.st.Load()
}

func (w *world) invalidateAll() {
	w.regMu.Lock()
	rs := append([]*reactive.Resource{}, w.reg...)
	w.regMu.Unlock()
	for _, r := range rs {
		r.Invalidate()
	}
}

func (w *world) buildSchema() *graphql.Schema {
	s := schemabuilder.NewSchema()
	q := s.Query()
	q.FieldFunc("flag", func(ctx context.Context) int64 { return w.dep(ctx).Flag })
	q.FieldFunc("items", func(ctx context.Context) []*Node {
		st := w.dep(ctx)
		out := make([]*Node, len(st.Items))
		for i := range st.Items {
			n := st.Items[i]
			out[i] = &n
		}
		return out
	})
	// the same list as objects whose key is a byte string (a binary id)
	q.FieldFunc("blobs", func(ctx context.Context) []*Blob {
		st := w.dep(ctx)
		out := make([]*Blob, len(st.Items))
		for i, n := range st.Items {
			out[i] = &Blob{Id: []byte(fmt.Sprint("k", n.Id)), Val: n.Val}
		}
		return out
	})
	q.FieldFunc("thing", func(ctx context.Context) *U {
		switch w.dep(ctx).Kind {
		case "A":
			return &U{A: &A{Id: 7, X: "x"}}
		case "B":
			return &U{B: &B{Id: 8, Y: 9}}
		case "C":
			return &U{C: &C{Z: "plain"}}
		}
		return nil
	})
	q.FieldFunc("maybe", func(ctx context.Context) *Node {
		if w.dep(ctx).Maybe {
			return &Node{Id: 5, Val: "maybe"}
		}
		return nil
	})
	persons := map[int64]*Person{1: {1}, 2: {2}, 3: {3}}
	q.FieldFunc("people", func(ctx context.Context) []*Person {
		var out []*Person
		for _, id := range w.dep(ctx).People {
			out = append(out, persons[id])
		}
		return out
	})
	person := s.Object("Person", Person{})
	person.Key("id")
	person.FieldFunc("score", func(ctx context.Context, p *Person) int64 { return w.dep(ctx).Scores[p.Id] }, schemabuilder.Expensive)
	// a resolver that notices the cancellation of its run (Stop / unsubscribe while in flight)
	q.FieldFunc("slow", func(ctx context.Context) (int64, error) {
		st := w.dep(ctx)
		rt.Yield()
		if err := ctx.Err(); err != nil {
			return 0, err
		}
		return st.Flag, nil
	})
	q.FieldFunc("xboom", func(ctx context.Context) (string, error) {
		switch w.depBoom(ctx).Boom {
		case "error":
			return "", errors.New("db password is " + secret)
		case "safe":
			return "", graphql.NewSafeError("visible to the client")
		case "panic":
			panic("resolver exploded: " + secret)
		}
		return "ok", nil
	}, schemabuilder.Expensive)
	q.FieldFunc("boom", func(ctx context.Context) (string, error) {
		st := w.dep(ctx)
		mode := st.Boom
		if strings.HasSuffix(mode, "-once") {
			if w.failOnce[mode] {
				mode = ""
			} else {
				w.failOnce[mode] = true
				mode = strings.TrimSuffix(mode, "-once")
			}
		}
		switch mode {
		case "error":
			return "", errors.New("db password is " + secret)
		case "safe":
			return "", graphql.NewSafeError("visible to the client")
		case "wrapped":
			return "", graphql.WrapAsSafeError(errors.New(secret), "wrapped visible message")
		case "panic":
			panic("resolver exploded: " + secret)
		case "custom": // an application error type with its own client-safe text
			return "", lookupError{}
		case "wrapcancel": // something private to the resolver was cancelled; the subscription's own context is alive
			return "", fmt.Errorf("rpc to %s failed: %w", secret, context.Canceled)
		case "barecancel": // the error of a private sub-context, handed on as it is
			return "", context.Canceled
		case "safecancel":
			return "", graphql.WrapAsSafeError(fmt.Errorf("inner %s: %w", secret, context.Canceled), "could not load devices")
		}
		return "ok", nil
	})
	node := s.Object("Node", Node{})
	node.Key("id")
	// an Expensive (memoised under a rerunner) scalar field with an argument: selected twice under two aliases
	node.FieldFunc("scaled", func(ctx context.Context, n *Node, args struct{ By int64 }) int64 {
		return (n.Id + w.dep(ctx).Flag) * args.By
	}, schemabuilder.Expensive)
	s.Object("Blob", Blob{}).Key("id")
	s.Object("A", A{}).Key("id")
	s.Object("B", B{}).Key("id")
	s.Object("C", C{})
	m := s.Mutation()
	m.FieldFunc("setFlag", func(ctx context.Context, args struct{ V int64 }) int64 {
		w.st.Update(func(s state) state { s.Flag = args.V; return s })
		w.invalidateAll()
		return args.V
	})
	m.FieldFunc("fail", func(ctx context.Context) (int64, error) { return 0, errors.New("mutation failed: " + secret) })
	// a mutation that is still running when later frames arrive, and then panics
	m.FieldFunc("slowPanic", func(ctx context.Context) (int64, error) {
		rt.Yield()
		panic("mutation panicked: " + secret)
	})
	return s.MustBuild()
}

// ---- fake socket ----

type sock struct{ w *world }

func (s *sock) ReadJSON(v interface{}) error {
	w := s.w
	w.record(event{Kind: "processed", N: w.reads})
	w.reads++
	b, ok := w.in.Recv2()
	if !ok {
		return &websocket.CloseError{Code: websocket.CloseNormalClosure}
	}
	if err := json.Unmarshal(b, v); err != nil {
		return fmt.Errorf("bad json frame: %v", err)
	}
	return nil
}

func (s *sock) WriteJSON(v interface{}) error {
	b, err := json.Marshal(v)
	if err != nil {
		s.w.x.Fail("envelope-serialisable", "", "WriteJSON value does not marshal: %v", err)
		return err
	}
	var env struct {
		ID      string          `json:"id"`
		Type    string          `json:"type"`
		Message json.RawMessage `json:"message"`
	}
	json.Unmarshal(b, &env)
	if strings.Contains(string(b), secret) {
		s.w.x.Fail("no-secret-on-the-wire", "", "an internal error text reached the client: %s", b)
	}
	s.w.record(event{Kind: "write", ID: env.ID, Type: env.Type, Msg: env.Message})
	rt.Note("server writes %s", b)
	return nil
}

func (s *sock) Close() error { s.w.closed = true; return nil }

// ---- subscription logger ----

type slog struct{ w *world }

func (l *slog) Subscribe(ctx context.Context, id string, tags map[string]string) {
	l.w.record(event{Kind: "log", Type: "Subscribe", ID: id})
}
func (l *slog) Unsubscribe(ctx context.Context, id string) {
	l.w.record(event{Kind: "log", Type: "Unsubscribe", ID: id})
}
