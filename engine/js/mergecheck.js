// usage: node mergecheck.js <client/src/merge.ts> <cases.jsonl>
// Loads the repository's JavaScript client merge (TypeScript with only `any` annotations: the annotations and the
// export keyword are removed textually), applies every delta to its key-stripped old value and compares the result
// with the key-stripped new value. One JSON line per mismatch on stdout; "LOADED" first if the client code loaded.
const fs = require("fs");
const src = fs.readFileSync(process.argv[2], "utf8")
  .replace(/^export\s+/gm, "")
  .replace(/:\s*any\b/g, "");
let merge;
try {
  merge = new Function(src + "\nreturn merge;")();
} catch (e) {
  console.log("LOADFAIL " + e);
  process.exit(0);
}
console.log("LOADED");
function canon(v) {
  if (v === undefined) return "undefined"; // not a JSON value: the client would hand it to the application
  if (v === null || typeof v !== "object") return JSON.stringify(v);
  if (Array.isArray(v)) {
    const parts = [];
    for (let i = 0; i < v.length; i++) parts.push(canon(v[i]));
    return "[" + parts.join(",") + "]";
  }
  return "{" + Object.keys(v).sort().map((k) => JSON.stringify(k) + ":" + canon(v[k])).join(",") + "}";
}
const lines = fs.readFileSync(process.argv[3], "utf8").split("\n");
for (let n = 0; n < lines.length; n++) {
  if (!lines[n]) continue;
  const c = JSON.parse(lines[n]);
  let got;
  try {
    got = canon(merge(c.o, c.d));
  } catch (e) {
    got = "THROWS " + e;
  }
  const want = canon(c.w);
  if (got !== want) console.log(JSON.stringify({ n: n, got: got, want: want }));
}
