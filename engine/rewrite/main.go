// vrewrite loads thunder packages from the working tree with full type
// information, rewrites every synchronisation construct to the vrt shims by
// text edits on the original source, and emits a `go build -overlay` file.
package main

import (
	"encoding/json"
	"flag"
	"fmt"
	"go/ast"
	"go/token"
	"go/types"
	"os"
	"os/exec"
	"path/filepath"
	"sort"
	"strings"

	"golang.org/x/tools/go/packages"
)

var (
	repo    = flag.String("repo", "/repo", "thunder working tree")
	target  = flag.String("target", "/repo", "tree the build reads (overlay keys are below it)")
	out     = flag.String("out", "", "scratch output directory")
	hooks   = flag.String("hooks", "", "directory with verif-tagged files to add (<hooks>/<pkgdir>/*.go)")
	extra   = flag.String("extra", "", "directory with replacement files for dependencies (<extra>/MAP.json)")
	tick    = flag.Bool("tick", false, "insert rt.Tick() at every function entry")
	verbose = flag.Bool("v", false, "verbose")
)

const modPath = "github.com/samsarahq/thunder"

var importSwap = map[string]string{
	"sync":                       "vrt/vsync",
	"sync/atomic":                "vrt/vatomic",
	"time":                       "vrt/vtime",
	"golang.org/x/sync/errgroup": "vrt/verrgroup",
}

// packages whose function entries count steps (deterministic work measure for C15)
var tickPkgs = map[string]bool{modPath + "/graphql": true, modPath + "/federation": true}

// wrap map element reads / writes / deletes of instrumented packages for the happens-before race monitor (vrt/rt/race.go)
var raceInstr = true

var shimmedPkgs = map[string]bool{"sync": true, "sync/atomic": true, "time": true, "golang.org/x/sync/errgroup": true}

type edit struct {
	start, end int
	text       func() string
}

type fileRW struct {
	pkg   *packages.Package
	file  *ast.File
	src   []byte
	tf    *token.File
	edits []edit
	inst  map[string]bool
	errs  []string
	recv2 map[*ast.UnaryExpr]bool
	skip  map[ast.Node]bool
	par   map[ast.Node]ast.Node
}

func (f *fileRW) off(p token.Pos) int { return f.tf.Offset(p) }

func (f *fileRW) errorf(n ast.Node, format string, a ...interface{}) {
	f.errs = append(f.errs, fmt.Sprintf("%s: %s", f.pkg.Fset.Position(n.Pos()), fmt.Sprintf(format, a...)))
}

// render returns the rewritten text of the byte range [start,end).
func (f *fileRW) render(start, end int) string {
	var in []edit
	for _, e := range f.edits {
		if e.start >= start && e.end <= end {
			in = append(in, e)
		}
	}
	sort.SliceStable(in, func(i, j int) bool {
		if in[i].start != in[j].start {
			return in[i].start < in[j].start
		}
		zi, zj := in[i].end == in[i].start, in[j].end == in[j].start
		if zi != zj {
			return zi // insertions go before a replacement starting at the same offset
		}
		return in[i].end > in[j].end
	})
	var sb strings.Builder
	pos := start
	for _, e := range in {
		if isSelf(f, e) {
			continue
		}
		if e.start < pos { // nested in an earlier edit
			continue
		}
		sb.Write(f.src[pos:e.start])
		sb.WriteString(e.text())
		pos = e.end
	}
	sb.Write(f.src[pos:end])
	return sb.String()
}

// cur marks the edit currently being expanded so that render of an identical
// range inside its own text() does not recurse into itself.
var curEdit = map[*fileRW][]edit{}

func isSelf(f *fileRW, e edit) bool {
	for _, c := range curEdit[f] {
		if c.start == e.start && c.end == e.end {
			return true
		}
	}
	return false
}

func (f *fileRW) node(n ast.Node) string { return f.render(f.off(n.Pos()), f.off(n.End())) }

func (f *fileRW) add(n ast.Node, text func() string) {
	f.addRange(f.off(n.Pos()), f.off(n.End()), text)
}

func (f *fileRW) addRange(s, e int, text func() string) {
	var ed edit
	ed = edit{start: s, end: e}
	ed.text = func() string {
		curEdit[f] = append(curEdit[f], ed)
		defer func() { curEdit[f] = curEdit[f][:len(curEdit[f])-1] }()
		return text()
	}
	f.edits = append(f.edits, ed)
}

func unparen(e ast.Expr) ast.Expr {
	for {
		p, ok := e.(*ast.ParenExpr)
		if !ok {
			return e
		}
		e = p.X
	}
}

func (f *fileRW) typeOf(e ast.Expr) types.Type { return f.pkg.TypesInfo.TypeOf(e) }

func (f *fileRW) isChan(e ast.Expr) bool {
	t := f.typeOf(e)
	if t == nil {
		return false
	}
	_, ok := t.Underlying().(*types.Chan)
	return ok
}

func (f *fileRW) isMap(e ast.Expr) (*types.Map, bool) {
	t := f.typeOf(e)
	if t == nil {
		return nil, false
	}
	m, ok := t.Underlying().(*types.Map)
	return m, ok
}

func (f *fileRW) pkgInstrumented(p *types.Package) bool {
	if p == nil {
		return true
	}
	return f.inst[p.Path()] || shimmedPkgs[p.Path()]
}

// external reports whether a channel-typed expression denotes a real Go
// channel owned by code outside the instrumented set (ctx.Done()).
func (f *fileRW) external(e ast.Expr) bool {
	info := f.pkg.TypesInfo
	switch x := unparen(e).(type) {
	case *ast.CallExpr:
		switch fun := unparen(x.Fun).(type) {
		case *ast.SelectorExpr:
			if sel, ok := info.Selections[fun]; ok {
				return !f.pkgInstrumented(sel.Obj().Pkg())
			}
			if obj := info.Uses[fun.Sel]; obj != nil {
				return !f.pkgInstrumented(obj.Pkg())
			}
		case *ast.Ident:
			if obj := info.Uses[fun]; obj != nil {
				if _, isB := obj.(*types.Builtin); isB {
					return false
				}
				return !f.pkgInstrumented(obj.Pkg())
			}
		}
	case *ast.SelectorExpr:
		if sel, ok := info.Selections[x]; ok {
			return !f.pkgInstrumented(sel.Obj().Pkg())
		}
		if obj := info.Uses[x.Sel]; obj != nil {
			return !f.pkgInstrumented(obj.Pkg())
		}
	}
	return false
}

func (f *fileRW) isConst(e ast.Expr) bool {
	tv, ok := f.pkg.TypesInfo.Types[e]
	if !ok {
		return false
	}
	return tv.Value != nil || tv.IsNil()
}

func basicKey(t types.Type) bool {
	_, ok := t.Underlying().(*types.Basic)
	return ok
}

func (f *fileRW) collect() {
	info := f.pkg.TypesInfo
	f.par = map[ast.Node]ast.Node{}
	var stack []ast.Node
	ast.Inspect(f.file, func(n ast.Node) bool {
		if n == nil {
			stack = stack[:len(stack)-1]
			return true
		}
		if len(stack) > 0 {
			f.par[n] = stack[len(stack)-1]
		}
		stack = append(stack, n)
		return true
	})

	// imports
	for _, is := range f.file.Imports {
		path := strings.Trim(is.Path.Value, "\"`")
		if to, ok := importSwap[path]; ok {
			name := filepath.Base(path)
			if is.Name != nil {
				name = is.Name.Name
			}
			is := is
			f.add(is, func() string { return name + " \"" + to + "\"" })
		}
	}
	// extra imports right after the package clause
	pe := f.off(f.file.Name.End())
	f.addRange(pe, pe, func() string {
		return "\nimport vrt_rt \"vrt/rt\"\nimport vrt_vchan \"vrt/vchan\"\n"
	})

	ast.Inspect(f.file, func(n ast.Node) bool {
		switch x := n.(type) {
		case *ast.ChanType:
			f.add(x, func() string { return "*vrt_vchan.Chan[" + f.node(x.Value) + "]" })
		case *ast.CallExpr:
			if id, ok := unparen(x.Fun).(*ast.Ident); ok {
				if _, isB := info.Uses[id].(*types.Builtin); isB {
					switch id.Name {
					case "make":
						if ct, ok := x.Args[0].(*ast.ChanType); ok {
							f.add(x, func() string {
								s := "vrt_vchan.Make[" + f.node(ct.Value) + "]("
								if len(x.Args) > 1 {
									s += f.node(x.Args[1])
								}
								return s + ")"
							})
						} else if f.isChan(x.Args[0]) {
							f.errorf(x, "make of named channel type is not supported")
						}
					case "close":
						if f.external(x.Args[0]) {
							f.errorf(x, "close of external channel")
						} else {
							f.add(x, func() string { return "(" + f.node(x.Args[0]) + ").Close()" })
						}
					case "delete":
						if _, ok := f.isMap(x.Args[0]); ok && raceInstr {
							s, e := f.off(x.Args[0].Pos()), f.off(x.Args[0].End())
							f.addRange(s, s, func() string { return "vrt_rt.MW(" })
							f.addRange(e, e, func() string { return ")" })
						}
					case "len", "cap":
						if f.isChan(x.Args[0]) {
							m := map[string]string{"len": "Len", "cap": "Cap"}[id.Name]
							f.add(x, func() string { return "(" + f.node(x.Args[0]) + ")." + m + "()" })
						}
					}
				}
			}
		case *ast.SelectorExpr:
			if id, ok := x.X.(*ast.Ident); ok {
				if pn, ok := info.Uses[id].(*types.PkgName); ok && pn.Imported().Path() == "context" {
					switch x.Sel.Name {
					case "WithCancel":
						f.add(x, func() string { return "vrt_rt.WithCancel" })
					case "WithTimeout", "WithDeadline":
						f.errorf(x, "context.%s uses real time; not supported in instrumented code", x.Sel.Name)
					}
				}
			}
		case *ast.IndexExpr:
			if _, ok := f.isMap(x.X); ok && raceInstr {
				fn := "vrt_rt.MR("
				switch p := f.par[x].(type) {
				case *ast.AssignStmt:
					for _, l := range p.Lhs {
						if l == ast.Expr(x) {
							fn = "vrt_rt.MW("
						}
					}
				case *ast.IncDecStmt:
					if p.X == ast.Expr(x) {
						fn = "vrt_rt.MW("
					}
				}
				s, e := f.off(x.X.Pos()), f.off(x.X.End())
				f.addRange(s, s, func() string { return fn })
				f.addRange(e, e, func() string { return ")" })
			}
		case *ast.SendStmt:
			if f.external(x.Chan) {
				f.errorf(x, "send on external channel")
			} else {
				f.add(x, func() string { return "(" + f.node(x.Chan) + ").Send(" + f.node(x.Value) + ")" })
			}
		case *ast.AssignStmt:
			if len(x.Lhs) == 2 && len(x.Rhs) == 1 {
				if u, ok := unparen(x.Rhs[0]).(*ast.UnaryExpr); ok && u.Op == token.ARROW {
					f.recv2[u] = true
				}
			}
			if x.Tok == token.ASSIGN && len(x.Lhs) == 1 {
				if ix, ok := x.Lhs[0].(*ast.IndexExpr); ok {
					if m, ok := f.isMap(ix.X); ok && !basicKey(m.Key()) {
						switch f.par[x].(type) {
						case *ast.BlockStmt, *ast.CaseClause, *ast.CommClause:
							switch unparen(ix.Index).(type) {
							case *ast.Ident, *ast.SelectorExpr:
								s := f.off(x.Pos())
								f.addRange(s, s, func() string { return "vrt_rt.NoteKey(" + f.node(ix.Index) + "); " })
							}
						}
					}
				}
			}
		case *ast.ValueSpec:
			if len(x.Names) == 2 && len(x.Values) == 1 {
				if u, ok := unparen(x.Values[0]).(*ast.UnaryExpr); ok && u.Op == token.ARROW {
					f.recv2[u] = true
				}
			}
		case *ast.UnaryExpr:
			if x.Op == token.ARROW {
				if _, inComm := f.par[x].(*ast.CommClause); inComm {
					return true // handled by select
				}
				if p, ok := f.par[x].(*ast.ExprStmt); ok {
					if _, inComm := f.par[p].(*ast.CommClause); inComm && f.par[p].(*ast.CommClause).Comm == ast.Stmt(p) {
						return true
					}
				}
				if as, ok := f.par[x].(*ast.AssignStmt); ok {
					if cc, inComm := f.par[as].(*ast.CommClause); inComm && cc.Comm == ast.Stmt(as) {
						return true
					}
				}
				if f.external(x.X) {
					if f.recv2[x] {
						f.errorf(x, "v, ok := <-external channel")
					}
					f.add(x, func() string { return "vrt_vchan.RecvExternal(" + f.node(x.X) + ")" })
				} else {
					m := "Recv"
					if f.recv2[x] {
						m = "Recv2"
					}
					f.add(x, func() string { return "(" + f.node(x.X) + ")." + m + "()" })
				}
			}
		case *ast.GoStmt:
			f.goStmt(x)
		case *ast.SelectStmt:
			f.selectStmt(x)
		case *ast.RangeStmt:
			f.rangeStmt(x)
		case *ast.FuncDecl:
			if (*tick || tickPkgs[f.pkg.PkgPath]) && x.Body != nil {
				s := f.off(x.Body.Lbrace) + 1
				f.addRange(s, s, func() string { return " vrt_rt.Tick(); " })
			}
		case *ast.FuncLit:
			if *tick || tickPkgs[f.pkg.PkgPath] {
				s := f.off(x.Body.Lbrace) + 1
				f.addRange(s, s, func() string { return " vrt_rt.Tick(); " })
			}
		}
		return true
	})
}

func (f *fileRW) labeled(n ast.Node) bool {
	_, ok := f.par[n].(*ast.LabeledStmt)
	return ok
}

func (f *fileRW) goStmt(g *ast.GoStmt) {
	call := g.Call
	f.add(g, func() string {
		var sb strings.Builder
		sb.WriteString("{ vrt_f := " + f.node(call.Fun) + "; ")
		var args []string
		for i, a := range call.Args {
			if f.isConst(a) {
				args = append(args, f.node(a))
				continue
			}
			name := fmt.Sprintf("vrt_a%d", i)
			sb.WriteString(name + " := " + f.node(a) + "; ")
			args = append(args, name)
		}
		if call.Ellipsis.IsValid() && len(args) > 0 {
			args[len(args)-1] += "..."
		}
		sb.WriteString("vrt_rt.Go(func() { vrt_f(" + strings.Join(args, ", ") + ") }) }")
		return sb.String()
	})
}

func (f *fileRW) selectStmt(s *ast.SelectStmt) {
	if f.labeled(s) {
		f.errorf(s, "labeled select is not supported")
	}
	f.add(s, func() string {
		var decl, cases, body strings.Builder
		hasDefault := false
		for i, c := range s.Body.List {
			cc := c.(*ast.CommClause)
			// body text: from after the colon to the start of the next clause / closing brace
			bs := f.off(cc.Colon) + 1
			be := f.off(s.Body.Rbrace)
			if i+1 < len(s.Body.List) {
				be = f.off(s.Body.List[i+1].Pos())
			}
			idx := fmt.Sprint(i)
			switch comm := cc.Comm.(type) {
			case nil:
				hasDefault = true
				idx = "-1"
				cases.WriteString("nil, ")
			case *ast.SendStmt:
				if f.external(comm.Chan) {
					f.errorf(comm, "send on external channel in select")
				}
				cases.WriteString("vrt_vchan.SendOf(" + f.node(comm.Chan) + ", " + f.node(comm.Value) + "), ")
			case *ast.ExprStmt:
				u := unparen(comm.X).(*ast.UnaryExpr)
				if f.external(u.X) {
					cases.WriteString("vrt_vchan.External(" + f.node(u.X) + "), ")
				} else {
					cases.WriteString("vrt_vchan.RecvOf(" + f.node(u.X) + "), ")
				}
			case *ast.AssignStmt:
				u := unparen(comm.Rhs[0]).(*ast.UnaryExpr)
				if f.external(u.X) {
					f.errorf(comm, "value receive from external channel in select")
				}
				ch := f.node(u.X)
				dst, okp := "nil", "nil"
				lhs0 := f.node(comm.Lhs[0])
				if comm.Tok == token.DEFINE {
					if lhs0 != "_" {
						decl.WriteString(lhs0 + " := vrt_vchan.ZeroOf(" + ch + "); _ = " + lhs0 + "; ")
						dst = "&" + lhs0
					}
					if len(comm.Lhs) > 1 {
						if l1 := f.node(comm.Lhs[1]); l1 != "_" {
							decl.WriteString(l1 + " := false; _ = " + l1 + "; ")
							okp = "&" + l1
						}
					}
				} else {
					if lhs0 != "_" {
						dst = "&" + lhs0
					}
					if len(comm.Lhs) > 1 {
						if l1 := f.node(comm.Lhs[1]); l1 != "_" {
							okp = "&" + l1
						}
					}
				}
				cases.WriteString("vrt_vchan.RecvInto(" + ch + ", " + dst + ", " + okp + "), ")
			}
			body.WriteString("case " + idx + ":" + f.render(bs, be))
		}
		return "{ " + decl.String() + "switch vrt_vchan.Select(" + fmt.Sprint(hasDefault) + ", " + cases.String() + ") {\n" + body.String() + "default: panic(\"vrt: select returned an invalid index\")\n} }"
	})
}

func hasCall(e ast.Expr) bool {
	found := false
	ast.Inspect(e, func(n ast.Node) bool {
		if _, ok := n.(*ast.CallExpr); ok {
			found = true
		}
		return !found
	})
	return found
}

func (f *fileRW) rangeStmt(r *ast.RangeStmt) {
	inner := func() string { return f.render(f.off(r.Body.Lbrace)+1, f.off(r.Body.Rbrace)) }
	name := func(e ast.Expr) string {
		if e == nil {
			return "_"
		}
		return f.node(e)
	}
	if f.isChan(r.X) {
		if f.external(r.X) {
			f.errorf(r, "range over external channel")
			return
		}
		f.add(r, func() string {
			k := name(r.Key)
			if r.Tok == token.ASSIGN {
				return "for { var vrt_ok bool; " + k + ", vrt_ok = (" + f.node(r.X) + ").Recv2(); if !vrt_ok { break }; " + inner() + "}"
			}
			s := "for { " + k + ", vrt_ok := (" + f.node(r.X) + ").Recv2(); if !vrt_ok { break }; "
			if k != "_" {
				s += "_ = " + k + "; "
			}
			return s + inner() + "}"
		})
		return
	}
	if _, ok := f.isMap(r.X); ok {
		viaTemp := hasCall(r.X)
		if viaTemp && f.labeled(r) {
			f.errorf(r, "labeled range over map-valued call expression is not supported")
			return
		}
		f.add(r, func() string {
			m := "(" + f.node(r.X) + ")"
			pre, post := "", ""
			if viaTemp {
				pre, post = "{ vrt_m := "+m+"; ", " }"
				m = "(vrt_m)"
			}
			k, v := name(r.Key), name(r.Value)
			s := "for _, vrt_k := range vrt_rt.SortedKeys" + m + " { vrt_v, vrt_ok := " + m + "[vrt_k]; _ = vrt_v; if !vrt_ok { continue }; "
			op := " := "
			if r.Tok == token.ASSIGN {
				op = " = "
			}
			if k != "_" {
				s += k + op + "vrt_k; "
				if r.Tok == token.DEFINE {
					s += "_ = " + k + "; "
				}
			}
			if v != "_" {
				s += v + op + "vrt_v; "
				if r.Tok == token.DEFINE {
					s += "_ = " + v + "; "
				}
			}
			return pre + s + inner() + "}" + post
		})
	}
}

func main() {
	flag.Parse()
	patterns := flag.Args()
	if *out == "" || len(patterns) == 0 {
		fmt.Fprintln(os.Stderr, "usage: vrewrite -out DIR [-hooks DIR] pkg...")
		os.Exit(2)
	}
	inst := map[string]bool{}
	var pats []string
	for _, p := range patterns {
		inst[modPath+"/"+p] = true
		pats = append(pats, "./"+p)
	}
	cfg := &packages.Config{
		Mode: packages.NeedName | packages.NeedFiles | packages.NeedCompiledGoFiles | packages.NeedSyntax | packages.NeedTypes | packages.NeedTypesInfo | packages.NeedImports | packages.NeedDeps,
		Dir:  *repo,
		Env:  append(os.Environ(), "GOFLAGS=-mod=mod", "GOPROXY=off", "GOSUMDB=off", "GOTOOLCHAIN=local"),
	}
	pkgs, err := packages.Load(cfg, pats...)
	if err != nil {
		fmt.Fprintln(os.Stderr, "load:", err)
		os.Exit(2)
	}
	bad := false
	for _, p := range pkgs {
		for _, e := range p.Errors {
			fmt.Fprintln(os.Stderr, "package error:", e)
			bad = true
		}
	}
	if bad {
		os.Exit(3) // the working tree does not type-check
	}
	overlay := map[string]string{}
	var allErrs []string
	for _, p := range pkgs {
		if !inst[p.PkgPath] {
			continue
		}
		for i, file := range p.Syntax {
			fn := p.CompiledGoFiles[i]
			if !strings.HasPrefix(fn, *repo+"/") {
				continue
			}
			src, err := os.ReadFile(fn)
			if err != nil {
				fmt.Fprintln(os.Stderr, err)
				os.Exit(2)
			}
			rw := &fileRW{pkg: p, file: file, src: src, tf: p.Fset.File(file.Pos()), inst: inst,
				recv2: map[*ast.UnaryExpr]bool{}, skip: map[ast.Node]bool{}}
			rw.collect()
			text := rw.render(0, len(src))
			allErrs = append(allErrs, rw.errs...)
			hdr := "//go:build go1.18\n\n"
			if strings.Contains(string(src[:rw.off(file.Package)]), "go:build") || strings.Contains(string(src[:rw.off(file.Package)]), "+build") {
				allErrs = append(allErrs, fn+": file has its own build constraint")
			}
			rel := strings.TrimPrefix(fn, *repo+"/")
			dst := filepath.Join(*out, "src", rel)
			os.MkdirAll(filepath.Dir(dst), 0o755)
			if err := os.WriteFile(dst, []byte(hdr+text+"\nvar _ = vrt_rt.Yield\nvar _ = vrt_vchan.External\n"), 0o644); err != nil {
				fmt.Fprintln(os.Stderr, err)
				os.Exit(2)
			}
			overlay[filepath.Join(*target, rel)] = dst
		}
	}
	if len(allErrs) > 0 {
		for _, e := range allErrs {
			fmt.Fprintln(os.Stderr, "vrewrite:", e)
		}
		os.Exit(2)
	}
	// testing a scratch copy: carry its other differing files over as plain replacements
	if *repo != *target {
		filepath.Walk(*repo, func(path string, fi os.FileInfo, err error) error {
			if err != nil || fi.IsDir() || !strings.HasSuffix(path, ".go") || strings.HasSuffix(path, "_test.go") {
				return nil
			}
			rel, _ := filepath.Rel(*repo, path)
			key := filepath.Join(*target, rel)
			if _, done := overlay[key]; done {
				return nil
			}
			a, _ := os.ReadFile(path)
			b, err2 := os.ReadFile(key)
			if err2 != nil || string(a) != string(b) {
				overlay[key] = path
			}
			return nil
		})
	}
	// hook files: <hooks>/<pkgdir>/<name>.go are added as <repo>/<pkgdir>/zz_verif_<name>.go
	if *hooks != "" {
		filepath.Walk(*hooks, func(path string, fi os.FileInfo, err error) error {
			if err != nil || fi.IsDir() || !strings.HasSuffix(path, ".go") {
				return nil
			}
			rel, _ := filepath.Rel(*hooks, path)
			dir := filepath.Dir(rel)
			overlay[filepath.Join(*target, dir, "zz_verif_"+filepath.Base(rel))] = path
			return nil
		})
	}
	if *extra != "" {
		b, err := os.ReadFile(filepath.Join(*extra, "MAP.json"))
		if err == nil {
			var m map[string]string
			if err := json.Unmarshal(b, &m); err != nil {
				fmt.Fprintln(os.Stderr, "extra MAP.json:", err)
				os.Exit(2)
			}
			modcache := ""
			if out, err := exec.Command("go", "env", "GOMODCACHE").Output(); err == nil {
				modcache = strings.TrimSpace(string(out))
			}
			for k, v := range m {
				overlay[strings.ReplaceAll(k, "${GOMODCACHE}", modcache)] = filepath.Join(*extra, v)
			}
		}
	}
	b, _ := json.MarshalIndent(map[string]interface{}{"Replace": overlay}, "", " ")
	if err := os.WriteFile(filepath.Join(*out, "overlay.json"), b, 0o644); err != nil {
		fmt.Fprintln(os.Stderr, err)
		os.Exit(2)
	}
	if *verbose {
		fmt.Fprintf(os.Stderr, "vrewrite: %d files\n", len(overlay))
	}
}
