module vrt

go 1.21
