package rt

import (
	"fmt"
	"reflect"
	"sort"
	"unsafe"
)

var (
	notedIDs = map[interface{}]uint64{}
	notedSeq uint64
)

// NoteKey records the first-insertion order of a non-basic map key so that
// iteration over maps keyed by pointers/structs is deterministic.
func NoteKey(k interface{}) {
	defer func() { recover() }() // unhashable dynamic type: ignore
	if _, ok := notedIDs[k]; ok {
		return
	}
	notedSeq++
	notedIDs[k] = notedSeq
	if cur != nil {
		cur.noted = append(cur.noted, k)
	}
}

func forgetNoted(r *Run) {
	for _, k := range r.noted {
		delete(notedIDs, k)
	}
	r.noted = nil
}

func notedID(k interface{}) (id uint64, ok bool) {
	defer func() {
		if recover() != nil {
			ok = false
		}
	}()
	id, ok = notedIDs[k]
	return
}

// SortedKeys returns the keys of m in a deterministic order.
func SortedKeys[M ~map[K]V, K comparable, V any](m M) []K {
	if r := cur; r != nil && r.cfg.Race {
		r.mapAccess(*(*uintptr)(unsafe.Pointer(&m)), m, false)
	}
	keys := make([]K, 0, len(m))
	for k := range m {
		keys = append(keys, k)
	}
	if len(keys) < 2 {
		return keys
	}
	sort.SliceStable(keys, func(i, j int) bool { return lessKey(keys[i], keys[j]) })
	return keys
}

func lessKey(a, b interface{}) bool {
	switch x := a.(type) {
	case string:
		if y, ok := b.(string); ok {
			return x < y
		}
	case int:
		if y, ok := b.(int); ok {
			return x < y
		}
	case int64:
		if y, ok := b.(int64); ok {
			return x < y
		}
	}
	ia, oka := notedID(a)
	ib, okb := notedID(b)
	if oka && okb {
		return ia < ib
	}
	if oka != okb {
		return okb // un-noted (pre-run) keys first
	}
	va, vb := reflect.ValueOf(a), reflect.ValueOf(b)
	if va.IsValid() && vb.IsValid() && va.Kind() == vb.Kind() {
		switch va.Kind() {
		case reflect.Int, reflect.Int8, reflect.Int16, reflect.Int32, reflect.Int64:
			return va.Int() < vb.Int()
		case reflect.Uint, reflect.Uint8, reflect.Uint16, reflect.Uint32, reflect.Uint64, reflect.Uintptr:
			return va.Uint() < vb.Uint()
		case reflect.String:
			return va.String() < vb.String()
		case reflect.Float32, reflect.Float64:
			return va.Float() < vb.Float()
		case reflect.Ptr, reflect.UnsafePointer, reflect.Chan, reflect.Func:
			return va.Pointer() < vb.Pointer()
		}
	}
	return fmt.Sprintf("%T:%#v", a, a) < fmt.Sprintf("%T:%#v", b, b)
}
