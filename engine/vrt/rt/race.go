package rt

import (
	"fmt"
	"os"
	"runtime"
	"strings"
	"unsafe"
)

var raceDebug = os.Getenv("VERIF_RACEDBG")

// Happens-before race monitor for map accesses of instrumented packages (Config.Race).
//
// Every thread and every synchronisation object carries a vector clock that is advanced at exactly the places
// where the happens-before hashes are (Point, TouchHB, Go, clock fire, quiescence): an operation on an object joins
// the object's clock into the thread's and publishes the result on the object. By default this treats an operation as
// an acquire+release pair on its object, which can only add order (two atomic loads): the monitor may miss a
// race, it does not invent one. Mutexes, read-write mutexes and select are given their exact meaning (VCMode). The rewriter wraps `m[k]` reads as MR(m)[k], writes / delete as MW(m), and range goes
// through SortedKeys; two accesses to one map, at least one a write, by threads whose clocks do not order them, are a
// data race (in a free-running program: "concurrent map read and map write", a process crash).

type vclock []uint32

func (a vclock) get(i int) uint32 {
	if i < len(a) {
		return a[i]
	}
	return 0
}

func joinVC(a, b vclock) vclock {
	if len(b) > len(a) {
		n := make(vclock, len(b))
		copy(n, a)
		a = n
	}
	for i, v := range b {
		if v > a[i] {
			a[i] = v
		}
	}
	return a
}

func (t *Thread) tick() {
	for len(t.vc) <= t.idx {
		t.vc = append(t.vc, 0)
	}
	t.vc[t.idx]++
}

// syncVC: thread t performed an operation on objs.
func (r *Run) syncVC(t *Thread, objs ...*Obj) {
	if !r.cfg.Race || t == nil {
		return
	}
	if raceDebug == "sync" {
		before := append(vclock{}, t.vc...)
		defer func() {
			for i := range t.vc {
				if i != t.idx && t.vc[i] > before.get(i) {
					fmt.Fprintf(os.Stderr, "SYNCDBG2 thread=%s learned idx=%d %d->%d at %s | %s | %s\n", t.ID(), i, before.get(i), t.vc[i], site(3), site(4), site(5))
				}
			}
		}()
	}
	for _, o := range objs {
		if o != nil {
			t.vc = joinVC(t.vc, o.vc)
		}
	}
	for _, o := range objs {
		if o != nil {
			o.vc = append(o.vc[:0], t.vc...)
		}
	}
	t.tick()
}

// VCMode says what an operation means for the vector clocks. The default treats the operation as an acquire and a
// release on its object (sound: it can only add order). The other modes drop edges the Go memory model does not
// give, which would hide races: two RLocks do not order each other, an Unlock learns nothing from the next Lock, a
// select synchronises only with the case it took.
type VCMode uint8

const (
	VCBoth         VCMode = iota
	VCAcquire             // Lock: join the object's clock
	VCRelease             // Unlock (with Op.Release): publish before yielding, acquire nothing
	VCReadAcquire         // RLock: join the clock published by Unlock
	VCReadRelease         // RUnlock (with Op.Release): publish to the readers' clock
	VCWriteAcquire        // RWMutex.Lock: join the clocks published by Unlock and by RUnlock
	VCLate                // the shim calls SyncPicked for the object the operation turned out to use (select)
)

// releaseVC runs before the thread yields in an operation whose effect is already applied (Op.Release).
func (r *Run) releaseVC(t *Thread, o *Obj, mode VCMode) {
	switch mode {
	case VCRelease:
		o.vc = joinVC(o.vc, t.vc)
		t.tick()
	case VCReadRelease:
		o.vcR = joinVC(o.vcR, t.vc)
		t.tick()
	default:
		r.syncVC(t, o)
	}
}

// pointVC runs after the operation was scheduled.
func (r *Run) pointVC(t *Thread, op *Op) {
	if raceDebug == "sync" {
		before := append(vclock{}, t.vc...)
		defer func() {
			for i := range t.vc {
				if i != t.idx && t.vc[i] > before.get(i) {
					fmt.Fprintf(os.Stderr, "SYNCDBG thread=%s op=%s learned idx=%d %d->%d\n", t.ID(), op.Kind, i, before.get(i), t.vc[i])
				}
			}
		}()
	}
	switch op.VC {
	case VCAcquire, VCReadAcquire:
		t.vc = joinVC(t.vc, op.Obj.vc)
		t.tick()
	case VCWriteAcquire:
		t.vc = joinVC(joinVC(t.vc, op.Obj.vc), op.Obj.vcR)
		t.tick()
	case VCRelease, VCReadRelease:
		if !op.Release { // not published before yielding: publish now
			r.releaseVC(t, op.Obj, op.VC)
		}
	case VCLate:
	default:
		r.syncVC(t, append([]*Obj{op.Obj}, op.More...)...)
	}
}

// SyncPicked is the acquire+release of a VCLate operation on the object it turned out to use.
func (r *Run) SyncPicked(o *Obj) {
	if r.cfg.Race && o != nil && r.current != nil {
		r.syncVC(r.current, o)
	}
}

func (r *Run) inheritVC(child, parent *Thread) {
	if !r.cfg.Race {
		return
	}
	child.vc = append(vclock{}, parent.vc...)
	child.tick()
	parent.tick()
}

// barrierVC: the running thread observed global quiescence (everything else finished or is blocked for good).
func (r *Run) barrierVC(t *Thread) {
	if !r.cfg.Race || t == nil {
		return
	}
	for _, o := range r.threads {
		t.vc = joinVC(t.vc, o.vc)
	}
	t.tick()
}

type access struct {
	idx   int
	clk   uint32
	tid   string
	site  string
	write bool
}

type mapRec struct {
	keep   interface{} // keeps the map alive so that its address is not reused within the run
	write  *access
	reads  []access
	raced  bool
	mapTyp string
}

// RaceRec is one detected pair of unordered conflicting accesses.
type RaceRec struct {
	Map    string
	First  string // "thread site (read|write)"
	Second string
	SiteA  string
	SiteB  string
}

func site(skip int) string {
	_, file, line, ok := runtime.Caller(skip)
	if !ok {
		return "?"
	}
	// keep the last two path elements
	n := 0
	for i := len(file) - 1; i >= 0; i-- {
		if file[i] == '/' {
			n++
			if n == 2 {
				file = file[i+1:]
				break
			}
		}
	}
	return fmt.Sprintf("%s:%d", file, line)
}

func (r *Run) mapAccess(addr uintptr, keep interface{}, write bool) {
	t := r.current
	if t == nil || addr == 0 || r.aborting {
		return
	}
	if r.maps == nil {
		r.maps = map[uintptr]*mapRec{}
	}
	rec := r.maps[addr]
	if rec == nil {
		rec = &mapRec{keep: keep, mapTyp: fmt.Sprintf("%T", keep)}
		r.maps[addr] = rec
	}
	for len(t.vc) <= t.idx {
		t.vc = append(t.vc, 0)
	}
	me := access{idx: t.idx, clk: t.vc[t.idx], tid: t.ID(), write: write}
	if raceDebug != "" && strings.Contains(rec.mapTyp, raceDebug) {
		fmt.Fprintf(os.Stderr, "RACEDBG %s thread=%s idx=%d write=%v vc=%v lastwrite=%+v at %s\n", rec.mapTyp, t.ID(), t.idx, write, t.vc, rec.write, site(3))
	}
	report := func(prev *access) {
		if rec.raced {
			return
		}
		rec.raced = true
		me.site = site(4)
		kind := func(w bool) string {
			if w {
				return "write"
			}
			return "read"
		}
		r.res.Races = append(r.res.Races, RaceRec{Map: rec.mapTyp,
			First:  fmt.Sprintf("thread %s %s at %s", prev.tid, kind(prev.write), prev.site),
			Second: fmt.Sprintf("thread %s %s at %s", me.tid, kind(write), me.site),
			SiteA:  prev.site, SiteB: me.site})
	}
	if w := rec.write; w != nil && w.idx != t.idx && w.clk > t.vc.get(w.idx) {
		report(w)
	}
	if write {
		for i := range rec.reads {
			rd := &rec.reads[i]
			if rd.idx != t.idx && rd.clk > t.vc.get(rd.idx) {
				report(rd)
			}
		}
		me.site = site(3)
		rec.write = &me
		rec.reads = rec.reads[:0]
		return
	}
	for i := range rec.reads {
		if rec.reads[i].idx == t.idx {
			rec.reads[i].clk = me.clk
			return
		}
	}
	me.site = site(3)
	rec.reads = append(rec.reads, me)
}

// MR marks a read of map m (index expression, range) and returns m.
func MR[M ~map[K]V, K comparable, V any](m M) M {
	if r := cur; r != nil && r.cfg.Race {
		r.mapAccess(*(*uintptr)(unsafe.Pointer(&m)), m, false)
	}
	return m
}

// MW marks a write of map m (assignment to an element, delete) and returns m.
func MW[M ~map[K]V, K comparable, V any](m M) M {
	if r := cur; r != nil && r.cfg.Race {
		r.mapAccess(*(*uintptr)(unsafe.Pointer(&m)), m, true)
	}
	return m
}
