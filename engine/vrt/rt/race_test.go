package rt

import "testing"

func TestRaceMonitor(t *testing.T) {
	var mu Obj
	run := func(lockReader bool) int {
		m := map[string]int{}
		res := Execute(Config{Race: true}, func() {
			Go(func() {
				Cur().Point(Op{Kind: "lock", Obj: &mu})
				MW(m)["a"] = 1
				Cur().Point(Op{Kind: "unlock", Obj: &mu})
			})
			Go(func() {
				if lockReader {
					Cur().Point(Op{Kind: "lock", Obj: &mu})
				}
				_ = MR(m)["a"]
			})
			Quiesce()
			_ = MR(m)["a"] // after the barrier: ordered
		})
		return len(res.Races)
	}
	if n := run(false); n != 1 {
		t.Fatalf("unlocked reader: %d races, want 1", n)
	}
	if n := run(true); n != 0 {
		t.Fatalf("locked reader: %d races, want 0", n)
	}
}

func TestRaceMonitorReleaseBeforeYield(t *testing.T) {
	var mu Obj
	locked := false
	m := map[string]int{}
	crit := func() {
		Cur().Point(Op{Kind: "lock", Obj: &mu, Enabled: func() bool { return !locked }})
		locked = true
		MW(m)["a"]++
		locked = false
		Cur().Point(Op{Kind: "unlock", Obj: &mu, Release: true})
	}
	// every schedule with at most 2 deviations from the default one
	var explore func(prefix []int, depth int) int
	total := 0
	explore = func(prefix []int, depth int) int {
		res := Execute(Config{Race: true, Prefix: prefix}, func() { Go(crit); Go(crit); Quiesce() })
		total++
		n := len(res.Races)
		if depth == 0 {
			return n
		}
		for i := len(prefix); i < len(res.Points); i++ {
			for alt := 1; alt < res.Points[i].N; alt++ {
				p := append([]int{}, prefix...)
				for j := len(prefix); j < i; j++ {
					p = append(p, 0)
				}
				n += explore(append(p, alt), depth-1)
			}
		}
		return n
	}
	if n := explore(nil, 2); n != 0 {
		t.Fatalf("two critical sections on one mutex: %d races over %d schedules, want 0", n, total)
	}
	if total < 5 {
		t.Fatalf("only %d schedules explored", total)
	}
}

// Two read locks do not order their holders, a read unlock orders the holder before the next write lock, and an
// unlock learns nothing from the lock that follows it.
func TestRaceMonitorExactClocks(t *testing.T) {
	var rw Obj
	run := func(body func(m map[string]int)) int {
		m := map[string]int{}
		res := Execute(Config{Race: true}, func() { body(m); Quiesce() })
		return len(res.Races)
	}
	rlock := func() { Cur().Point(Op{Kind: "rw.rlock", Obj: &rw, VC: VCReadAcquire}) }
	runlock := func() { Cur().Point(Op{Kind: "rw.runlock", Obj: &rw, Release: true, VC: VCReadRelease}) }
	lock := func() { Cur().Point(Op{Kind: "rw.lock", Obj: &rw, VC: VCWriteAcquire}) }
	unlock := func() { Cur().Point(Op{Kind: "rw.unlock", Obj: &rw, Release: true, VC: VCRelease}) }
	// a write under a read lock next to a read under a read lock: a race although both threads used the mutex
	if n := run(func(m map[string]int) {
		Go(func() { rlock(); MW(m)["a"] = 1; runlock() })
		Go(func() { rlock(); _ = MR(m)["a"]; runlock() })
	}); n != 1 {
		t.Fatalf("two read-lock holders: %d races, want 1", n)
	}
	// a read under a read lock, then a write under the write lock: ordered (default schedule runs them in this order)
	if n := run(func(m map[string]int) {
		Go(func() { rlock(); _ = MR(m)["a"]; runlock() })
		Go(func() { lock(); MW(m)["a"] = 1; unlock() })
	}); n != 0 {
		t.Fatalf("reader then writer: %d races, want 0", n)
	}
	// a write under the write lock, then a read under a read lock: ordered
	if n := run(func(m map[string]int) {
		Go(func() { lock(); MW(m)["a"] = 1; unlock() })
		Go(func() { rlock(); _ = MR(m)["a"]; runlock() })
	}); n != 0 {
		t.Fatalf("writer then reader: %d races, want 0", n)
	}
	// the first thread reads after its unlock what the second writes under the lock it takes next: a race
	if n := run(func(m map[string]int) {
		Go(func() { lock(); unlock(); Yield(); _ = MR(m)["a"] })
		Go(func() { lock(); MW(m)["a"] = 1; unlock() })
	}); n != 1 {
		t.Fatalf("read after unlock vs write under the next lock: %d races, want 1", n)
	}
}
