package rt

import "testing"

func TestRaceMonitor(t *testing.T) {
	var mu Obj
	run := func(lockReader bool) int {
		m := map[string]int{}
		res := Execute(Config{Race: true}, func() {
			Go(func() {
				Cur().Point(Op{Kind: "lock", Obj: &mu})
				MW(m)["a"] = 1
				Cur().Point(Op{Kind: "unlock", Obj: &mu})
			})
			Go(func() {
				if lockReader {
					Cur().Point(Op{Kind: "lock", Obj: &mu})
				}
				_ = MR(m)["a"]
			})
			Quiesce()
			_ = MR(m)["a"] // after the barrier: ordered
		})
		return len(res.Races)
	}
	if n := run(false); n != 1 {
		t.Fatalf("unlocked reader: %d races, want 1", n)
	}
	if n := run(true); n != 0 {
		t.Fatalf("locked reader: %d races, want 0", n)
	}
}

func TestRaceMonitorReleaseBeforeYield(t *testing.T) {
	var mu Obj
	locked := false
	m := map[string]int{}
	crit := func() {
		Cur().Point(Op{Kind: "lock", Obj: &mu, Enabled: func() bool { return !locked }})
		locked = true
		MW(m)["a"]++
		locked = false
		Cur().Point(Op{Kind: "unlock", Obj: &mu, Release: true})
	}
	// every schedule with at most 2 deviations from the default one
	var explore func(prefix []int, depth int) int
	total := 0
	explore = func(prefix []int, depth int) int {
		res := Execute(Config{Race: true, Prefix: prefix}, func() { Go(crit); Go(crit); Quiesce() })
		total++
		n := len(res.Races)
		if depth == 0 {
			return n
		}
		for i := len(prefix); i < len(res.Points); i++ {
			for alt := 1; alt < res.Points[i].N; alt++ {
				p := append([]int{}, prefix...)
				for j := len(prefix); j < i; j++ {
					p = append(p, 0)
				}
				n += explore(append(p, alt), depth-1)
			}
		}
		return n
	}
	if n := explore(nil, 2); n != 0 {
		t.Fatalf("two critical sections on one mutex: %d races over %d schedules, want 0", n, total)
	}
	if total < 5 {
		t.Fatalf("only %d schedules explored", total)
	}
}
