// Package rt is the controlled cooperative scheduler under which rewritten
// thunder code runs. One execution ("run") at a time per process. Every shim
// operation calls Point before taking effect; the explorer decides, at every
// point with more than one enabled alternative, which thread continues.
package rt

import (
	"context"
	"fmt"
	"runtime"
	"runtime/debug"
	"sort"
	"strings"
	"time"
)

// Obj is embedded in every shim synchronisation object.
type Obj struct {
	Anon  bool // identity derived from an address: kept out of replay fingerprints
	epoch uint64
	id    uint32
	HB    uint64
	vc    vclock // published by releasing operations (for a read-write mutex: by Unlock)
	vcR   vclock // read-write mutex: published by RUnlock, acquired by Lock only
}

// Touch (re)assigns the per-run identity of an object. It reports whether the
// object was first seen in this epoch (callers reset transient state then).
func (o *Obj) Touch() bool {
	if o.epoch == epoch {
		return false
	}
	o.epoch = epoch
	nextObj++
	o.id = nextObj
	o.HB = 0 // purely causal: identity comes from the history of the threads touching it
	o.vc = nil
	return true
}

func (o *Obj) ID() uint32 { o.Touch(); return o.id }

// Epoch changes at the start and at the end of every run.
func Epoch() uint64 { return epoch }

var (
	epoch   uint64 = 1
	nextObj uint32
	cur     *Run
)

// Op describes the operation a thread is about to perform.
type Op struct {
	Kind    string
	Obj     *Obj
	More    []*Obj        // further objects the operation reads (select)
	Enabled func() bool   // nil = always enabled
	Release bool          // the operation's effect is already applied when Point is called (Unlock): publish the clock before yielding
	VC      VCMode        // what the operation means for the race monitor's vector clocks (default: acquire and release)
	Quiesce bool          // enabled only when nothing else can run and no deadline is armed
	Horizon time.Duration // Quiesce: deadlines further away than this do not count (0 = drain all)
}

type Thread struct {
	Path    []int
	Name    string
	wake    chan struct{}
	pending *Op
	parkSeq uint64
	done    bool
	started bool
	nspawn  int
	hb      uint64
	vc      vclock
	idx     int
	fn      func()
	// Handoff is used by vchan for rendezvous on unbuffered channels.
	Handoff interface{}
}

func (t *Thread) ID() string {
	var sb strings.Builder
	for i, p := range t.Path {
		if i > 0 {
			sb.WriteByte('.')
		}
		fmt.Fprintf(&sb, "%d", p)
	}
	return sb.String()
}

func (t *Thread) ParkSeq() uint64 { return t.parkSeq }
func (t *Thread) Pending() *Op    { return t.pending }

func lessPath(a, b []int) bool {
	for i := 0; i < len(a) && i < len(b); i++ {
		if a[i] != b[i] {
			return a[i] < b[i]
		}
	}
	return len(a) < len(b)
}

// PointRec is one recorded choice point (only points with N > 1 are recorded).
type PointRec struct {
	N          int
	Kind       byte // 's' schedule, 'd' data, 'f' fault data
	RunEnabled bool // 's': the running thread was still enabled (alt>0 is a preemption)
	ClockIdx   int  // 's': index of the clock alternative, -1 if none
	ClockDue   bool // 's': the earliest deadline is already due (firing needs no time to pass)
	Chosen     int
	FP         uint64
	Step       int
	Label      string
}

// Cost of taking alternative alt at this point, in deviations.
func (p *PointRec) Cost(alt int) int {
	if alt == 0 {
		return 0
	}
	switch p.Kind {
	case 's':
		// every departure from the default deterministic scheduler (continue the
		// running thread; else the lowest enabled thread id; the clock last) is one
		// deviation: a preemption, a non-default pick after a block, or time passing
		// while a thread could run.
		return 1
	case 'f':
		return 1
	}
	return 0
}

type TraceEv struct {
	T    string `json:"t"`
	Op   string `json:"op"`
	Obj  uint32 `json:"obj,omitempty"`
	Note string `json:"note,omitempty"`
}

type PanicRec struct {
	Thread string
	Value  string
	Stack  string
}

type Config struct {
	Prefix    []int
	PrefixFP  []uint64 // optional expected fingerprints for the prefix points
	MaxSteps  int
	MaxClock  int
	Trace     bool
	Race      bool // happens-before race monitor for instrumented map accesses (race.go)
	StartTime time.Time
	// Visit, if set, is asked at every choice point beyond the prefix whether the
	// state (happens-before key) was already expanded with at most this cost; true prunes.
	Visit func(key uint64, cost int) bool
}

type Result struct {
	Points     []PointRec
	Steps      int
	Deadlock   bool
	Blocked    []string // "tid: op" of blocked threads at deadlock
	StepCap    bool
	ClockCap   bool
	Panics     []PanicRec
	Diverged   string // non-empty: replay divergence (engine error)
	Trace      []TraceEv
	Threads    int
	ClockFires int
	HBFinal    uint64
	Conflicts  int // points where >1 real thread was enabled
	Pruned     bool
	Races      []RaceRec
}

type TimerEnt struct {
	when   time.Time
	seq    uint64
	fire   func(r *Run)
	active bool
	obj    *Obj
	run    *Run
}

type Run struct {
	cfg      Config
	threads  []*Thread
	current  *Thread
	aborting bool
	res      Result
	fp       uint64
	endCh    chan struct{}
	unwound  chan struct{}
	ended    bool
	now      time.Time
	timers   []*TimerEnt
	timerSeq uint64
	parkSeq  uint64
	noted    []interface{}
	clockT   *Thread
	clockObj Obj
	cost     int
	noBranch int
	maps     map[uintptr]*mapRec
	// Locals lets harness-level helpers keep per-run state.
	Locals map[string]interface{}
}

// Cur returns the active run or nil. Shim operations pass through when nil.
func Cur() *Run {
	if cur != nil && cur.aborting {
		return nil
	}
	return cur
}

// Aborting reports whether a run is being torn down (shim ops must be no-ops).
func Aborting() bool { return cur != nil && cur.aborting }

func (r *Run) Self() *Thread      { return r.current }
func (r *Run) Threads() []*Thread { return r.threads }
func (r *Run) Steps() int         { return r.res.Steps }

func mix(a, b uint64) uint64 {
	x := a ^ (b + 0x9e3779b97f4a7c15 + (a << 6) + (a >> 2))
	x ^= x >> 33
	x *= 0xff51afd7ed558ccd
	x ^= x >> 33
	return x
}

func hashStr(s string) uint64 {
	h := uint64(14695981039346656037)
	for i := 0; i < len(s); i++ {
		h ^= uint64(s[i])
		h *= 1099511628211
	}
	return h
}

var baseTime = time.Date(2020, 1, 2, 3, 4, 5, 0, time.UTC)

// Execute runs body as thread 0 under the scheduler and returns what happened.
func Execute(cfg Config, body func()) *Result {
	if cur != nil {
		panic("rt: nested Execute")
	}
	if cfg.MaxSteps == 0 {
		cfg.MaxSteps = 20000
	}
	if cfg.MaxClock == 0 {
		cfg.MaxClock = 64
	}
	epoch++
	nextObj = 0
	r := &Run{cfg: cfg, endCh: make(chan struct{}), unwound: make(chan struct{}, 1), Locals: map[string]interface{}{}}
	r.now = baseTime
	if !cfg.StartTime.IsZero() {
		r.now = cfg.StartTime
	}
	r.clockT = &Thread{Path: []int{1 << 30}, Name: "clock", idx: 0}
	cur = r
	t0 := r.newThread([]int{0}, body)
	r.current = nil
	endCh := r.endCh
	r.switchTo(t0, nil)
	<-endCh
	// unwind whatever is left (aborting is already set by whoever ended the run)
	for i := 0; i < len(r.threads); i++ {
		t := r.threads[i]
		if !t.done {
			if !t.started {
				t.done = true
				continue
			}
			t.wake <- struct{}{}
			<-r.unwound
		}
	}
	cur = nil
	epoch++
	forgetNoted(r)
	r.res.Threads = len(r.threads)
	r.res.HBFinal = r.fp
	return &r.res
}

func (r *Run) newThread(path []int, fn func()) *Thread {
	t := &Thread{Path: path, wake: make(chan struct{}, 1), fn: fn}
	t.hb = hashStr(t.ID())
	r.threads = append(r.threads, t)
	t.idx = len(r.threads) // 0 is the clock
	return t
}

func (r *Run) threadMain(t *Thread) {
	defer func() {
		if !r.aborting {
			if p := recover(); p != nil {
				r.res.Panics = append(r.res.Panics, PanicRec{Thread: t.ID(), Value: fmt.Sprint(p), Stack: string(debug.Stack())})
			}
		} else {
			recover()
		}
		t.done = true
		t.pending = nil
		if r.aborting {
			r.unwound <- struct{}{}
			return
		}
		r.current = nil
		r.reschedule(nil)
	}()
	<-t.wake
	if r.aborting {
		return
	}
	t.fn()
}

// switchTo hands the baton to next; from (may be nil) blocks until woken.
func (r *Run) switchTo(next *Thread, from *Thread) {
	r.current = next
	if next == from {
		return
	}
	if !next.started {
		next.started = true
		go r.threadMain(next)
	}
	next.wake <- struct{}{}
	if from != nil {
		<-from.wake
		if r.aborting {
			runtime.Goexit()
		}
	}
}

func (r *Run) finish() {
	r.current = nil
	r.aborting = true
	if !r.ended {
		r.ended = true
		close(r.endCh)
	}
}

// end terminates the run from inside a thread (deadlock / cap / divergence).
func (r *Run) end(from *Thread) {
	r.aborting = true
	r.current = nil
	if !r.ended {
		r.ended = true
		close(r.endCh)
	}
	if from != nil && !from.done {
		<-from.wake
		runtime.Goexit()
	}
}

func (r *Run) trace(t *Thread, op string, obj *Obj, note string) {
	if !r.cfg.Trace {
		return
	}
	var id uint32
	if obj != nil {
		id = obj.id
	}
	r.res.Trace = append(r.res.Trace, TraceEv{T: t.ID(), Op: op, Obj: id, Note: note})
}

// Point is called by a shim before its operation takes effect.
func (r *Run) Point(op Op) {
	t := r.current
	if t == nil {
		panic("rt: Point called outside a controlled thread")
	}
	if op.Obj != nil {
		op.Obj.Touch()
	}
	t.pending = &op
	r.parkSeq++
	t.parkSeq = r.parkSeq
	if r.cfg.Race && op.Release && op.Obj != nil {
		r.releaseVC(t, op.Obj, op.VC)
	}
	r.reschedule(t)
	t.pending = nil
	// happens-before bookkeeping
	var oid uint32
	if op.Obj != nil {
		h := mix(mix(t.hb, op.Obj.HB), hashStr(op.Kind))
		for _, m := range op.More {
			m.Touch()
			h = mix(h, m.HB)
		}
		for _, m := range op.More {
			m.HB = h
		}
		t.hb, op.Obj.HB = h, h
		if !op.Obj.Anon {
			oid = op.Obj.id
		}
		if r.cfg.Race {
			r.pointVC(t, &op)
		}
	} else {
		t.hb = mix(t.hb, hashStr(op.Kind))
		if op.Quiesce {
			r.barrierVC(t)
		}
	}
	r.fp = mix(r.fp, mix(hashStr(t.ID()), mix(hashStr(op.Kind), uint64(oid))))
	r.trace(t, op.Kind, op.Obj, "")
}

// Note adds a trace annotation for the running thread.
func Note(format string, a ...interface{}) {
	r := Cur()
	if r == nil || !r.cfg.Trace || r.current == nil {
		return
	}
	r.res.Trace = append(r.res.Trace, TraceEv{T: r.current.ID(), Op: "note", Note: fmt.Sprintf(format, a...)})
}

func (r *Run) enabledThreads(self *Thread) []*Thread {
	var en []*Thread
	for _, t := range r.threads {
		if t.done || t == self {
			continue
		}
		if !t.started {
			en = append(en, t)
			continue
		}
		if t.pending != nil && !t.pending.Quiesce && (t.pending.Enabled == nil || t.pending.Enabled()) {
			en = append(en, t)
		}
	}
	sort.Slice(en, func(i, j int) bool { return lessPath(en[i].Path, en[j].Path) })
	return en
}

func (r *Run) reschedule(self *Thread) {
	for {
		r.res.Steps++
		if r.res.Steps > r.cfg.MaxSteps {
			r.res.StepCap = true
			r.end(self)
			return
		}
		others := r.enabledThreads(self)
		selfEnabled := self != nil && !self.pending.Quiesce && (self.pending.Enabled == nil || self.pending.Enabled())
		var alts []*Thread
		if selfEnabled {
			alts = append(alts, self)
		}
		alts = append(alts, others...)
		clockIdx := -1
		if r.clockArmed() && !(len(alts) == 0 && r.quiescerBeyondClock()) {
			clockIdx = len(alts)
			alts = append(alts, r.clockT)
		}
		if len(alts) == 0 {
			// only quiescence waiters (if any) can run
			var qs []*Thread
			for _, t := range r.threads {
				if !t.done && t.started && t.pending != nil && t.pending.Quiesce {
					qs = append(qs, t)
				}
			}
			if len(qs) > 0 {
				sort.Slice(qs, func(i, j int) bool { return lessPath(qs[i].Path, qs[j].Path) })
				r.switchTo(qs[0], self)
				return
			}
			alive := false
			for _, t := range r.threads {
				if !t.done {
					alive = true
					op := "?"
					if t.pending != nil {
						op = t.pending.Kind
						if t.pending.Obj != nil {
							op += fmt.Sprintf("#%d", t.pending.Obj.id)
						}
					}
					r.res.Blocked = append(r.res.Blocked, t.ID()+": "+op)
				}
			}
			if alive {
				r.res.Deadlock = true
				r.end(self)
				return
			}
			r.finish()
			return
		}
		if len(alts) > 1 && (len(alts) > 2 || clockIdx < 0) {
			r.res.Conflicts++
		}
		c := 0
		if len(alts) > 1 && r.noBranch == 0 {
			r.current = self
			c = r.choose(PointRec{N: len(alts), Kind: 's', RunEnabled: selfEnabled, ClockIdx: clockIdx, ClockDue: clockIdx >= 0 && r.clockDue()})
			if c < 0 {
				r.end(self)
				return
			}
		}
		if c == clockIdx {
			r.res.ClockFires++
			if r.res.ClockFires > r.cfg.MaxClock {
				r.res.ClockCap = true
				r.end(self)
				return
			}
			r.fireClock()
			continue
		}
		r.switchTo(alts[c], self)
		return
	}
}

func (r *Run) choose(p PointRec) int {
	i := len(r.res.Points)
	p.FP = r.fp
	p.Step = r.res.Steps
	c := 0
	if i >= len(r.cfg.Prefix) && r.cfg.Visit != nil {
		if r.cfg.Visit(r.stateKey(), r.cost) {
			r.res.Pruned = true
			return -1
		}
	}
	if i < len(r.cfg.Prefix) {
		c = r.cfg.Prefix[i]
		if c < 0 || c >= p.N {
			r.res.Diverged = fmt.Sprintf("choice %d out of range at point %d (n=%d)", c, i, p.N)
			return -1
		}
		if i < len(r.cfg.PrefixFP) && r.cfg.PrefixFP[i] != p.FP {
			r.res.Diverged = fmt.Sprintf("fingerprint mismatch at point %d", i)
			return -1
		}
	}
	p.Chosen = c
	r.cost += p.Cost(c)
	r.res.Points = append(r.res.Points, p)
	return c
}

// stateKey identifies the Mazurkiewicz trace executed so far: the vector of
// per-thread happens-before hashes (by stable thread id), the clock's, and the
// thread holding the baton.
func (r *Run) stateKey() uint64 {
	k := mix(r.clockObj.HB, 0x51ed)
	for _, t := range r.threads {
		// commutative combination: thread creation order may differ between equivalent interleavings
		k += mix(hashStr(t.ID()), t.hb) * 0x9e3779b97f4a7c15
		if t.done {
			k += mix(hashStr(t.ID()), 0xd0e)
		}
	}
	if r.current != nil {
		k = mix(k, hashStr(r.current.ID()))
	}
	return k
}

// TouchHB records, without a scheduling point, that the running thread read or
// wrote the given objects (timer arming, harness bookkeeping).
func (r *Run) TouchHB(kind string, objs ...*Obj) { r.touchHB(kind, true, objs...) }

// TouchHBOnly is TouchHB without joining vector clocks: the access orders executions for the state hashes but is
// not treated as synchronisation by the race monitor.
func (r *Run) TouchHBOnly(kind string, objs ...*Obj) { r.touchHB(kind, false, objs...) }

func (r *Run) touchHB(kind string, vc bool, objs ...*Obj) {
	t := r.current
	if t == nil {
		return
	}
	h := mix(t.hb, hashStr(kind))
	for _, o := range objs {
		o.Touch()
		h = mix(h, o.HB)
	}
	for _, o := range objs {
		o.HB = h
	}
	t.hb = h
	if r.cfg.Race && vc {
		// the timer queue is shared state for the happens-before hashes, but arming or stopping a timer does not
		// synchronise with other users of the clock
		var sync []*Obj
		for _, o := range objs {
			if o != &r.clockObj {
				sync = append(sync, o)
			}
		}
		r.syncVC(t, sync...)
	}
}

// Choose asks the explorer for a data choice in [0,n). fault marks non-default
// answers as deviations.
func Choose(n int, fault bool, label string) int {
	r := Cur()
	if r == nil || n <= 1 || r.noBranch > 0 {
		return 0
	}
	k := byte('d')
	if fault {
		k = 'f'
	}
	c := r.choose(PointRec{N: n, Kind: k, ClockIdx: -1, Label: label})
	if c < 0 {
		r.end(r.current)
		return 0
	}
	t := r.current
	t.hb = mix(t.hb, mix(hashStr(label), uint64(c)))
	r.fp = mix(r.fp, mix(hashStr(label), uint64(c)))
	r.trace(t, "choose", nil, fmt.Sprintf("%s=%d/%d", label, c, n))
	return c
}

// Go starts a controlled thread (plain goroutine outside a run).
func Go(fn func()) {
	r := Cur()
	if r == nil {
		if Aborting() {
			return
		}
		panic("rt.Go outside a run: wrap the computation in rt.Execute/rt.RunDefault")
	}
	p := r.current
	path := append(append([]int{}, p.Path...), p.nspawn)
	p.nspawn++
	t := r.newThread(path, fn)
	t.hb = mix(t.hb, p.hb)
	r.inheritVC(t, p)
	r.trace(p, "go", nil, t.ID())
	r.Point(Op{Kind: "go"})
}

// Yield is an explicit scheduling point.
func Yield() {
	if r := Cur(); r != nil {
		r.Point(Op{Kind: "yield"})
	}
}

// ---- virtual clock ----

// quiescerBeyondClock: some thread waits for quiescence with a horizon that ends
// before the earliest armed deadline.
func (r *Run) quiescerBeyondClock() bool {
	var first time.Time
	for _, e := range r.timers {
		if e.active && (first.IsZero() || e.when.Before(first)) {
			first = e.when
		}
	}
	for _, t := range r.threads {
		if !t.done && t.started && t.pending != nil && t.pending.Quiesce && t.pending.Horizon > 0 && first.After(r.now.Add(t.pending.Horizon)) {
			return true
		}
	}
	return false
}

// ArmedTimers is the number of armed deadlines (oracle use).
func (r *Run) ArmedTimers() int {
	n := 0
	for _, e := range r.timers {
		if e.active {
			n++
		}
	}
	return n
}

func (r *Run) clockDue() bool {
	for _, e := range r.timers {
		if e.active && !e.when.After(r.now) {
			return true
		}
	}
	return false
}

func (r *Run) clockArmed() bool {
	for _, e := range r.timers {
		if e.active {
			return true
		}
	}
	return false
}

// Now reads the virtual clock (a tracked read of the clock object).
func (r *Run) Now() time.Time {
	if r.current != nil {
		r.clockObj.Touch()
		r.current.hb = mix(r.current.hb, mix(r.clockObj.HB, 0x90))
		if r.cfg.Race { // a read of the clock: ordered after whatever advanced it
			r.current.vc = joinVC(r.current.vc, r.clockObj.vc)
		}
	}
	return r.now
}

// AddTimer arms a deadline; fire runs in scheduler context (must not block).
func (r *Run) AddTimer(d time.Duration, obj *Obj, fire func(r *Run)) *TimerEnt {
	if d < 0 {
		d = 0
	}
	r.timerSeq++
	r.TouchHB("timer.arm", obj, &r.clockObj)
	e := &TimerEnt{when: r.now.Add(d), seq: r.timerSeq, fire: fire, active: true, obj: obj, run: r}
	r.timers = append(r.timers, e)
	return e
}

func (e *TimerEnt) Active() bool { return e != nil && e.active }
func (e *TimerEnt) Disarm() bool {
	if e == nil {
		return false
	}
	was := e.active
	e.active = false
	if e.run == cur && cur != nil && !cur.aborting {
		cur.TouchHB("timer.disarm", e.obj, &cur.clockObj)
	}
	return was
}

func (r *Run) fireClock() {
	var first *TimerEnt
	live := r.timers[:0]
	for _, e := range r.timers {
		if !e.active {
			continue
		}
		live = append(live, e)
		if first == nil || e.when.Before(first.when) || (e.when.Equal(first.when) && e.seq < first.seq) {
			first = e
		}
	}
	r.timers = live
	if first == nil {
		return
	}
	if first.when.After(r.now) {
		r.now = first.when
	}
	var due []*TimerEnt
	for _, e := range r.timers {
		if e.active && !e.when.After(r.now) {
			due = append(due, e)
		}
	}
	sort.Slice(due, func(i, j int) bool {
		if !due[i].when.Equal(due[j].when) {
			return due[i].when.Before(due[j].when)
		}
		return due[i].seq < due[j].seq
	})
	r.fp = mix(r.fp, hashStr("clock"))
	r.clockObj.Touch()
	h := mix(r.clockObj.HB, 0xf1e)
	for _, e := range due {
		e.obj.Touch()
		h = mix(h, e.obj.HB)
	}
	r.clockObj.HB = h
	for _, e := range due {
		e.obj.HB = h
	}
	r.clockT.hb = h
	if r.cfg.Trace {
		r.res.Trace = append(r.res.Trace, TraceEv{T: "clock", Op: "fire", Note: fmt.Sprintf("now=+%v n=%d", r.now.Sub(baseTime), len(due))})
	}
	for _, e := range due {
		if e.active {
			e.active = false
			if r.cfg.Race {
				// a firing is ordered after the arming of its own timer only: the clock is not a thread through
				// which unrelated timers synchronise
				r.clockT.vc = append(vclock{}, e.obj.vc...)
				r.clockT.tick()
				e.obj.vc = joinVC(e.obj.vc, r.clockT.vc)
			}
			e.fire(r)
		}
	}
}

// SpawnFromClock creates a thread whose parent is the clock (AfterFunc).
func (r *Run) SpawnFromClock(fn func()) {
	p := r.clockT
	path := append(append([]int{}, p.Path...), p.nspawn)
	p.nspawn++
	t := r.newThread(path, fn)
	t.hb = mix(t.hb, p.hb)
	r.inheritVC(t, p)
}

// Fail lets harness code abort the current execution with a recorded panic-like failure.
func (r *Run) Threadless() bool { return r.current == nil }

// RunDefault executes body under the scheduler with the default schedule
// (no deviations) and panics if it does not complete cleanly.
func RunDefault(body func()) {
	res := Execute(Config{MaxSteps: 2000000, MaxClock: 100000}, body)
	if res.Deadlock || res.StepCap || res.ClockCap || len(res.Panics) > 0 {
		msg := fmt.Sprintf("rt.RunDefault: deadlock=%v blocked=%v stepcap=%v clockcap=%v", res.Deadlock, res.Blocked, res.StepCap, res.ClockCap)
		for _, p := range res.Panics {
			msg += "\npanic in " + p.Thread + ": " + p.Value + "\n" + p.Stack
		}
		panic(msg)
	}
}

// Blocked is called by shims when an operation would block outside a run.
func Blocked(what string) {
	if Aborting() {
		return
	}
	panic("rt: " + what + " would block outside a run")
}

// ---- contexts ----

var extObjs = map[<-chan struct{}]*Obj{}
var extEpoch uint64

// ExternalObj returns the happens-before object standing for a real signalling
// channel (a context's Done channel).
func ExternalObj(ch <-chan struct{}) *Obj {
	if ch == nil {
		return nil
	}
	if extEpoch != epoch {
		extObjs, extEpoch = map[<-chan struct{}]*Obj{}, epoch
	}
	o := extObjs[ch]
	if o == nil {
		o = &Obj{Anon: true}
		extObjs[ch] = o
	}
	return o
}

type ctxNode struct {
	obj      *Obj
	children []*ctxNode
}

var ctxNodes = map[<-chan struct{}]*ctxNode{}
var ctxEpoch uint64

func (n *ctxNode) descendants(out []*Obj) []*Obj {
	for _, c := range n.children {
		out = append(out, c.obj)
		out = c.descendants(out)
	}
	return out
}

// WithCancel is context.WithCancel whose cancellation is a visible event on the
// Done channels of the context and of every context derived from it through WithCancel.
func WithCancel(parent context.Context) (context.Context, context.CancelFunc) {
	ctx, cancel := context.WithCancel(parent)
	if cur == nil {
		return ctx, cancel
	}
	if ctxEpoch != epoch {
		ctxNodes, ctxEpoch = map[<-chan struct{}]*ctxNode{}, epoch
	}
	n := &ctxNode{obj: ExternalObj(ctx.Done())}
	if ctx.Err() != nil {
		// born cancelled (the parent is already done): all such contexts share one
		// closed Done channel, and no cancellation event will ever be observed on it
		return ctx, cancel
	}
	ctxNodes[ctx.Done()] = n
	if pd := parent.Done(); pd != nil && pd != ctx.Done() {
		if pn := ctxNodes[pd]; pn != nil {
			pn.children = append(pn.children, n)
		}
	}
	return ctx, func() {
		if r := Cur(); r != nil {
			r.Point(Op{Kind: "ctx.cancel", Obj: n.obj, More: n.descendants(nil)})
		}
		cancel()
	}
}

// Quiesce blocks the calling thread until no other thread can run and no
// deadline is armed (the clock is drained first).
func Quiesce() {
	if r := Cur(); r != nil {
		r.Point(Op{Kind: "quiesce", Quiesce: true})
	}
}

// QuiesceWithin is Quiesce that leaves deadlines further away than h armed.
func QuiesceWithin(h time.Duration) {
	if r := Cur(); r != nil {
		r.Point(Op{Kind: "quiesce", Quiesce: true, Horizon: h})
	}
}

// NowRaw reads the virtual clock from scheduler context (timer delivery).
func (r *Run) NowRaw() time.Time { return r.now }

// ---- deterministic step counter (function entries of instrumented packages) ----

var ticks uint64

// Tick is inserted by the rewriter at function entries of selected packages.
func Tick() { ticks++ }

// Ticks returns the number of function entries counted so far.
func Ticks() uint64 { return ticks }

// NoBranch runs fn with the default schedule only: no choice point is recorded
// while it executes (used for expensive deterministic setup inside an explored body).
// Threads started inside keep running under exploration afterwards.
func NoBranch(fn func()) {
	r := Cur()
	if r == nil {
		fn()
		return
	}
	r.noBranch++
	defer func() { r.noBranch-- }()
	fn()
}
