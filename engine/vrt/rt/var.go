package rt

// Var is a shared harness variable whose accesses are scheduling points.
type Var[T any] struct {
	o Obj
	v T
}

func NewVar[T any](v T) *Var[T] { return &Var[T]{v: v} }

func (x *Var[T]) Load() T {
	if r := Cur(); r != nil {
		r.Point(Op{Kind: "var.load", Obj: &x.o})
	}
	return x.v
}

func (x *Var[T]) Store(v T) {
	if r := Cur(); r != nil {
		r.Point(Op{Kind: "var.store", Obj: &x.o})
	}
	x.v = v
}

func (x *Var[T]) Update(f func(T) T) T {
	if r := Cur(); r != nil {
		r.Point(Op{Kind: "var.update", Obj: &x.o})
	}
	x.v = f(x.v)
	return x.v
}

// Peek reads without a scheduling point (for oracles at quiescence).
func (x *Var[T]) Peek() T { return x.v }
