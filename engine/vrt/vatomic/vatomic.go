// Package vatomic mirrors sync/atomic; every operation is a scheduling point.
package vatomic

import (
	"sync/atomic"
	"unsafe"

	"vrt/rt"
)

type Value = atomic.Value

// objects are keyed by address; the table is reset per epoch by rt (ids only matter within a run).
var objs = map[unsafe.Pointer]*rt.Obj{}
var objsEpoch uint64

func point(kind string, p unsafe.Pointer) {
	r := rt.Cur()
	if r == nil {
		return
	}
	if e := rt.Epoch(); e != objsEpoch {
		// keys keep their targets alive, so no address is reused within a run
		objs, objsEpoch = map[unsafe.Pointer]*rt.Obj{}, e
	}
	o := objs[p]
	if o == nil {
		o = &rt.Obj{}
		objs[p] = o
	}
	r.Point(rt.Op{Kind: kind, Obj: o})
}

func AddInt32(p *int32, d int32) int32 { point("atomic.add", unsafe.Pointer(p)); *p += d; return *p }
func AddInt64(p *int64, d int64) int64 { point("atomic.add", unsafe.Pointer(p)); *p += d; return *p }
func AddUint32(p *uint32, d uint32) uint32 {
	point("atomic.add", unsafe.Pointer(p))
	*p += d
	return *p
}
func AddUint64(p *uint64, d uint64) uint64 {
	point("atomic.add", unsafe.Pointer(p))
	*p += d
	return *p
}
func LoadInt32(p *int32) int32        { point("atomic.load", unsafe.Pointer(p)); return *p }
func LoadInt64(p *int64) int64        { point("atomic.load", unsafe.Pointer(p)); return *p }
func LoadUint32(p *uint32) uint32     { point("atomic.load", unsafe.Pointer(p)); return *p }
func LoadUint64(p *uint64) uint64     { point("atomic.load", unsafe.Pointer(p)); return *p }
func StoreInt32(p *int32, v int32)    { point("atomic.store", unsafe.Pointer(p)); *p = v }
func StoreInt64(p *int64, v int64)    { point("atomic.store", unsafe.Pointer(p)); *p = v }
func StoreUint32(p *uint32, v uint32) { point("atomic.store", unsafe.Pointer(p)); *p = v }
func StoreUint64(p *uint64, v uint64) { point("atomic.store", unsafe.Pointer(p)); *p = v }
func SwapInt32(p *int32, v int32) int32 {
	point("atomic.swap", unsafe.Pointer(p))
	o := *p
	*p = v
	return o
}
func SwapInt64(p *int64, v int64) int64 {
	point("atomic.swap", unsafe.Pointer(p))
	o := *p
	*p = v
	return o
}
func SwapUint32(p *uint32, v uint32) uint32 {
	point("atomic.swap", unsafe.Pointer(p))
	o := *p
	*p = v
	return o
}
func SwapUint64(p *uint64, v uint64) uint64 {
	point("atomic.swap", unsafe.Pointer(p))
	o := *p
	*p = v
	return o
}
func CompareAndSwapInt32(p *int32, o, n int32) bool {
	point("atomic.cas", unsafe.Pointer(p))
	if *p == o {
		*p = n
		return true
	}
	return false
}
func CompareAndSwapInt64(p *int64, o, n int64) bool {
	point("atomic.cas", unsafe.Pointer(p))
	if *p == o {
		*p = n
		return true
	}
	return false
}
func CompareAndSwapUint32(p *uint32, o, n uint32) bool {
	point("atomic.cas", unsafe.Pointer(p))
	if *p == o {
		*p = n
		return true
	}
	return false
}
func CompareAndSwapUint64(p *uint64, o, n uint64) bool {
	point("atomic.cas", unsafe.Pointer(p))
	if *p == o {
		*p = n
		return true
	}
	return false
}
