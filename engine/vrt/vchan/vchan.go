// Package vchan implements Go channel semantics on top of rt. Rewritten
// thunder code uses *Chan[T] wherever the original used chan T.
package vchan

import (
	"vrt/rt"
)

type selState struct {
	fired   bool
	firedAt int
}

type waiter[T any] struct {
	sel  *selState
	idx  int
	val  T
	ok   bool
	done bool
	seq  uint64
}

func (w *waiter[T]) parked() bool { return !w.done && (w.sel == nil || !w.sel.fired) }

type Chan[T any] struct {
	o      rt.Obj
	cap    int
	buf    []T
	closed bool
	recvq  []*waiter[T]
	sendq  []*waiter[T]
}

func Make[T any](n ...int) *Chan[T] {
	c := &Chan[T]{}
	if len(n) > 0 {
		c.cap = n[0]
	}
	return c
}

// Obj exposes the channel's happens-before object (timers share it).
func (c *Chan[T]) Obj() *rt.Obj { c.touch(); return &c.o }

func ZeroOf[T any](c *Chan[T]) (z T) { return }

func (c *Chan[T]) touch() {
	if c.o.Touch() {
		c.recvq, c.sendq = nil, nil
	}
}

func (c *Chan[T]) Len() int {
	if c == nil {
		return 0
	}
	return len(c.buf)
}

func (c *Chan[T]) Cap() int {
	if c == nil {
		return 0
	}
	return c.cap
}

func (c *Chan[T]) firstRecv(not *selState) *waiter[T] {
	for _, w := range c.recvq {
		if w.parked() && (not == nil || w.sel != not) {
			return w
		}
	}
	return nil
}

func (c *Chan[T]) firstSend(not *selState) *waiter[T] {
	for _, w := range c.sendq {
		if w.parked() && (not == nil || w.sel != not) {
			return w
		}
	}
	return nil
}

func removeW[T any](q []*waiter[T], w *waiter[T]) []*waiter[T] {
	for i, x := range q {
		if x == w {
			return append(q[:i:i], q[i+1:]...)
		}
	}
	return q
}

func (c *Chan[T]) recvReady(sel *selState) bool {
	return c != nil && (len(c.buf) > 0 || c.closed || c.firstSend(sel) != nil)
}

func (c *Chan[T]) sendReady(sel *selState) bool {
	return c != nil && (c.closed || len(c.buf) < c.cap || (c.cap == 0 && c.firstRecv(sel) != nil))
}

// doRecv performs a receive that is known to be ready.
func (c *Chan[T]) doRecv(sel *selState) (v T, ok bool) {
	if len(c.buf) > 0 {
		v = c.buf[0]
		c.buf = c.buf[1:]
		return v, true
	}
	if s := c.firstSend(sel); s != nil && !c.closed {
		s.done = true
		if s.sel != nil {
			s.sel.fired, s.sel.firedAt = true, s.idx
		}
		c.sendq = removeW(c.sendq, s)
		return s.val, true
	}
	return v, false // closed
}

func (c *Chan[T]) doSend(v T, sel *selState) {
	if c.closed {
		panic("send on closed channel")
	}
	if len(c.buf) < c.cap {
		c.buf = append(c.buf, v)
		return
	}
	w := c.firstRecv(sel)
	w.val, w.ok, w.done = v, true, true
	if w.sel != nil {
		w.sel.fired, w.sel.firedAt = true, w.idx
	}
	c.recvq = removeW(c.recvq, w)
}

func never() bool { return false }

func (c *Chan[T]) Recv2() (v T, ok bool) {
	r := rt.Cur()
	if c == nil {
		if r != nil {
			r.Point(rt.Op{Kind: "chan.recv(nil)", Enabled: never})
		} else {
			rt.Blocked("receive from nil channel")
		}
		return
	}
	c.touch()
	if r == nil {
		if c.recvReady(nil) {
			return c.doRecv(nil)
		}
		rt.Blocked("channel receive")
		return
	}
	w := &waiter[T]{}
	c.recvq = append(c.recvq, w)
	r.Point(rt.Op{Kind: "chan.recv", Obj: &c.o, Enabled: func() bool { return w.done || c.recvReady(nil) }})
	c.recvq = removeW(c.recvq, w)
	if w.done {
		return w.val, w.ok
	}
	return c.doRecv(nil)
}

func (c *Chan[T]) Recv() T { v, _ := c.Recv2(); return v }

func (c *Chan[T]) Send(v T) {
	r := rt.Cur()
	if c == nil {
		if r != nil {
			r.Point(rt.Op{Kind: "chan.send(nil)", Enabled: never})
		} else {
			rt.Blocked("send on nil channel")
		}
		return
	}
	c.touch()
	if r == nil {
		if c.sendReady(nil) {
			c.doSend(v, nil)
			return
		}
		rt.Blocked("channel send")
		return
	}
	w := &waiter[T]{val: v}
	c.sendq = append(c.sendq, w)
	r.Point(rt.Op{Kind: "chan.send", Obj: &c.o, Enabled: func() bool { return w.done || c.sendReady(nil) }})
	c.sendq = removeW(c.sendq, w)
	if w.done {
		return
	}
	c.doSend(v, nil)
}

// TrySend is a non-blocking send without a scheduling point (timer delivery).
func (c *Chan[T]) TrySend(v T) bool {
	c.touch()
	if c.closed {
		return false
	}
	if c.sendReady(nil) {
		c.doSend(v, nil)
		return true
	}
	return false
}

func (c *Chan[T]) Close() {
	if c == nil {
		if rt.Aborting() {
			return
		}
		panic("close of nil channel")
	}
	c.touch()
	if r := rt.Cur(); r != nil {
		r.Point(rt.Op{Kind: "chan.close", Obj: &c.o})
	}
	if c.closed {
		if rt.Aborting() {
			return
		}
		panic("close of closed channel")
	}
	c.closed = true
}

// ---- select ----

type Case interface {
	obj() *rt.Obj
	ready(sel *selState) bool
	register(sel *selState, idx int)
	unregister()
	perform(sel *selState)
	finish()
}

type recvCase[T any] struct {
	c   *Chan[T]
	dst *T
	ok  *bool
	w   *waiter[T]
}

func RecvOf[T any](c *Chan[T]) Case                     { return &recvCase[T]{c: c} }
func RecvInto[T any](c *Chan[T], dst *T, ok *bool) Case { return &recvCase[T]{c: c, dst: dst, ok: ok} }

func (k *recvCase[T]) obj() *rt.Obj {
	if k.c == nil {
		return nil
	}
	k.c.touch()
	return &k.c.o
}
func (k *recvCase[T]) ready(sel *selState) bool { return k.c.recvReady(sel) }
func (k *recvCase[T]) register(sel *selState, idx int) {
	if k.c == nil {
		return
	}
	k.w = &waiter[T]{sel: sel, idx: idx}
	k.c.recvq = append(k.c.recvq, k.w)
}
func (k *recvCase[T]) unregister() {
	if k.c != nil && k.w != nil {
		k.c.recvq = removeW(k.c.recvq, k.w)
	}
}
func (k *recvCase[T]) set(v T, ok bool) {
	if k.dst != nil {
		*k.dst = v
	}
	if k.ok != nil {
		*k.ok = ok
	}
}
func (k *recvCase[T]) perform(sel *selState) { v, ok := k.c.doRecv(sel); k.set(v, ok) }
func (k *recvCase[T]) finish()               { k.set(k.w.val, k.w.ok) }

type sendCase[T any] struct {
	c *Chan[T]
	v T
	w *waiter[T]
}

func SendOf[T any](c *Chan[T], v T) Case { return &sendCase[T]{c: c, v: v} }

func (k *sendCase[T]) obj() *rt.Obj {
	if k.c == nil {
		return nil
	}
	k.c.touch()
	return &k.c.o
}
func (k *sendCase[T]) ready(sel *selState) bool { return k.c.sendReady(sel) }
func (k *sendCase[T]) register(sel *selState, idx int) {
	if k.c == nil {
		return
	}
	k.w = &waiter[T]{sel: sel, idx: idx, val: k.v}
	k.c.sendq = append(k.c.sendq, k.w)
}
func (k *sendCase[T]) unregister() {
	if k.c != nil && k.w != nil {
		k.c.sendq = removeW(k.c.sendq, k.w)
	}
}
func (k *sendCase[T]) perform(sel *selState) { k.c.doSend(k.v, sel) }
func (k *sendCase[T]) finish()               {}

// External wraps a real signalling channel (ctx.Done()): ready once it is closed.
type extCase struct{ ch <-chan struct{} }

func External(ch <-chan struct{}) Case { return &extCase{ch} }

func polled(ch <-chan struct{}) bool {
	if ch == nil {
		return false
	}
	select {
	case <-ch:
		return true
	default:
		return false
	}
}

func (k *extCase) obj() *rt.Obj            { return rt.ExternalObj(k.ch) }
func (k *extCase) ready(*selState) bool    { return polled(k.ch) }
func (k *extCase) register(*selState, int) {}
func (k *extCase) unregister()             {}
func (k *extCase) perform(*selState)       {}
func (k *extCase) finish()                 {}

// RecvExternal blocks until the real signalling channel is closed.
func RecvExternal(ch <-chan struct{}) {
	if r := rt.Cur(); r != nil {
		r.Point(rt.Op{Kind: "ext.recv", Obj: rt.ExternalObj(ch), Enabled: func() bool { return polled(ch) }})
		return
	}
	if !polled(ch) {
		rt.Blocked("receive from external channel")
	}
}

// Select returns the index of the case that proceeded, or -1 for default.
func Select(hasDefault bool, cases ...Case) int {
	r := rt.Cur()
	if r == nil {
		for i, k := range cases {
			if k == nil {
				continue
			}
			k.obj()
			if k.ready(nil) {
				k.perform(nil)
				return i
			}
		}
		if !hasDefault {
			rt.Blocked("select")
		}
		return -1
	}
	sel := &selState{}
	var first *rt.Obj
	var more []*rt.Obj
	for i, k := range cases {
		if k == nil {
			continue
		}
		if o := k.obj(); o != nil {
			if first == nil {
				first = o
			} else {
				more = append(more, o)
			}
		}
		k.register(sel, i)
	}
	anyReady := func() bool {
		if hasDefault || sel.fired {
			return true
		}
		for _, k := range cases {
			if k != nil && k.ready(sel) {
				return true
			}
		}
		return false
	}
	r.Point(rt.Op{Kind: "select", Obj: first, More: more, Enabled: anyReady, VC: rt.VCLate})
	for _, k := range cases {
		if k != nil {
			k.unregister()
		}
	}
	if sel.fired {
		r.SyncPicked(cases[sel.firedAt].obj())
		cases[sel.firedAt].finish()
		return sel.firedAt
	}
	var ready []int
	for i, k := range cases {
		if k != nil && k.ready(sel) {
			ready = append(ready, i)
		}
	}
	if len(ready) == 0 {
		return -1
	}
	pick := ready[0]
	if len(ready) > 1 {
		pick = ready[rt.Choose(len(ready), false, "select")]
	}
	r.SyncPicked(cases[pick].obj())
	cases[pick].perform(sel)
	return pick
}
