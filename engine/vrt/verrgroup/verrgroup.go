// Package verrgroup mirrors golang.org/x/sync/errgroup on vsync + rt.
package verrgroup

import (
	"context"

	"vrt/rt"
	"vrt/vsync"
)

type Group struct {
	cancel  func()
	wg      vsync.WaitGroup
	errOnce vsync.Once
	err     error
}

func WithContext(ctx context.Context) (*Group, context.Context) {
	ctx, cancel := rt.WithCancel(ctx)
	return &Group{cancel: cancel}, ctx
}

func (g *Group) Wait() error {
	g.wg.Wait()
	if g.cancel != nil {
		g.cancel()
	}
	return g.err
}

func (g *Group) Go(f func() error) {
	g.wg.Add(1)
	rt.Go(func() {
		defer g.wg.Done()
		if err := f(); err != nil {
			g.errOnce.Do(func() {
				g.err = err
				if g.cancel != nil {
					g.cancel()
				}
			})
		}
	})
}
