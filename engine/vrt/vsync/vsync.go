// Package vsync mirrors the parts of package sync thunder uses, on top of rt.
package vsync

import (
	"sync"

	"vrt/rt"
)

// Pool is a deterministic sync.Pool: last in, first out, empty at the start of every execution (a package-level
// pool must not carry objects from one explored execution into the next, and the real pool's per-P caches and
// its clearing by the garbage collector would make replays diverge). Get and Put are recorded as accesses to the
// pool for the happens-before hashes, so two executions that differ in the order of a Put and a Get are kept apart.
type Pool struct {
	o     rt.Obj
	New   func() interface{}
	items []interface{}
}

func (p *Pool) touch(kind string) {
	if p.o.Touch() {
		p.items = nil
	}
	if r := rt.Cur(); r != nil {
		r.TouchHBOnly(kind, &p.o)
	}
}

func (p *Pool) Get() interface{} {
	p.touch("pool.get")
	if n := len(p.items); n > 0 {
		x := p.items[n-1]
		p.items[n-1] = nil
		p.items = p.items[:n-1]
		return x
	}
	if p.New != nil {
		return p.New()
	}
	return nil
}

func (p *Pool) Put(x interface{}) {
	if x == nil {
		return
	}
	p.touch("pool.put")
	p.items = append(p.items, x)
}

type Locker = sync.Locker
type Map = sync.Map

type Mutex struct {
	o      rt.Obj
	locked bool
}

func (m *Mutex) Lock() {
	if m.o.Touch() {
		m.locked = false
	}
	if r := rt.Cur(); r != nil {
		r.Point(rt.Op{Kind: "mutex.lock", Obj: &m.o, VC: rt.VCAcquire, Enabled: func() bool { return !m.locked }})
	} else if m.locked {
		rt.Blocked("Mutex.Lock")
	}
	m.locked = true
}

func (m *Mutex) TryLock() bool {
	if m.o.Touch() {
		m.locked = false
	}
	if r := rt.Cur(); r != nil {
		r.Point(rt.Op{Kind: "mutex.trylock", Obj: &m.o})
	}
	if m.locked {
		return false
	}
	m.locked = true
	return true
}

func (m *Mutex) Unlock() {
	if m.o.Touch() {
		m.locked = false
		if rt.Aborting() {
			return
		}
	}
	if !m.locked {
		if rt.Aborting() {
			return
		}
		panic("sync: unlock of unlocked mutex")
	}
	m.locked = false
	// a scheduling point after the release: code that follows an Unlock may be
	// preempted before its next synchronisation operation (exposes accesses moved
	// out of the critical section)
	if r := rt.Cur(); r != nil {
		r.Point(rt.Op{Kind: "mutex.unlock", Obj: &m.o, Release: true, VC: rt.VCRelease})
	}
}

type RWMutex struct {
	o        rt.Obj
	writer   bool
	readers  int
	wwaiting int
}

func (m *RWMutex) touch() {
	if m.o.Touch() {
		m.writer, m.readers, m.wwaiting = false, 0, 0
	}
}

func (m *RWMutex) Lock() {
	m.touch()
	if r := rt.Cur(); r != nil {
		m.wwaiting++
		r.Point(rt.Op{Kind: "rw.lock", Obj: &m.o, VC: rt.VCWriteAcquire, Enabled: func() bool { return !m.writer && m.readers == 0 }})
		m.wwaiting--
	} else if m.writer || m.readers > 0 {
		rt.Blocked("RWMutex.Lock")
	}
	m.writer = true
}

func (m *RWMutex) Unlock() {
	m.touch()
	if !m.writer {
		if rt.Aborting() {
			return
		}
		panic("sync: Unlock of unlocked RWMutex")
	}
	m.writer = false
	if r := rt.Cur(); r != nil {
		r.Point(rt.Op{Kind: "rw.unlock", Obj: &m.o, Release: true, VC: rt.VCRelease})
	}
}

func (m *RWMutex) RLock() {
	m.touch()
	if r := rt.Cur(); r != nil {
		// Go gives parked writers preference over new readers. A writer counts as
		// parked only once it is actually blocked (readers active).
		r.Point(rt.Op{Kind: "rw.rlock", Obj: &m.o, VC: rt.VCReadAcquire, Enabled: func() bool { return !m.writer && !(m.wwaiting > 0 && m.readers > 0) }})
	} else if m.writer {
		rt.Blocked("RWMutex.RLock")
	}
	m.readers++
}

func (m *RWMutex) RUnlock() {
	m.touch()
	if m.readers <= 0 {
		if rt.Aborting() {
			return
		}
		panic("sync: RUnlock of unlocked RWMutex")
	}
	m.readers--
	if r := rt.Cur(); r != nil {
		r.Point(rt.Op{Kind: "rw.runlock", Obj: &m.o, Release: true, VC: rt.VCReadRelease})
	}
}

func (m *RWMutex) RLocker() sync.Locker { return rlocker{m} }

type rlocker struct{ m *RWMutex }

func (r rlocker) Lock()   { r.m.RLock() }
func (r rlocker) Unlock() { r.m.RUnlock() }

type WaitGroup struct {
	o rt.Obj
	n int
}

func (w *WaitGroup) Add(d int) {
	if w.o.Touch() {
		w.n = 0
	}
	if r := rt.Cur(); r != nil && d < 0 {
		r.Point(rt.Op{Kind: "wg.done", Obj: &w.o})
	}
	w.n += d
	if w.n < 0 {
		if rt.Aborting() {
			w.n = 0
			return
		}
		panic("sync: negative WaitGroup counter")
	}
}

func (w *WaitGroup) Done() { w.Add(-1) }

func (w *WaitGroup) Wait() {
	if w.o.Touch() {
		w.n = 0
	}
	if r := rt.Cur(); r != nil {
		r.Point(rt.Op{Kind: "wg.wait", Obj: &w.o, Enabled: func() bool { return w.n == 0 }})
	} else if w.n != 0 {
		rt.Blocked("WaitGroup.Wait")
	}
}

type Once struct {
	o       rt.Obj
	done    bool
	running bool
}

func (o *Once) Do(f func()) {
	if o.o.Touch() {
		o.running = false
	}
	if r := rt.Cur(); r != nil {
		r.Point(rt.Op{Kind: "once.do", Obj: &o.o, Enabled: func() bool { return !o.running }})
	}
	if o.done {
		return
	}
	o.running = true
	defer func() {
		o.done = true
		o.running = false
		if r := rt.Cur(); r != nil { // what f did happens before every later Do returns
			r.TouchHB("once.done", &o.o)
		}
	}()
	f()
}

// Cond is provided for completeness (thunder does not use it today).
type Cond struct {
	L       Locker
	o       rt.Obj
	waiters []*condWaiter
}

type condWaiter struct{ signalled bool }

func NewCond(l Locker) *Cond { return &Cond{L: l} }

func (c *Cond) Wait() {
	c.o.Touch()
	w := &condWaiter{}
	c.waiters = append(c.waiters, w)
	c.L.Unlock()
	if r := rt.Cur(); r != nil {
		r.Point(rt.Op{Kind: "cond.wait", Obj: &c.o, Enabled: func() bool { return w.signalled }})
	} else {
		rt.Blocked("Cond.Wait")
	}
	c.L.Lock()
}

func (c *Cond) Signal() {
	c.o.Touch()
	if r := rt.Cur(); r != nil {
		r.Point(rt.Op{Kind: "cond.signal", Obj: &c.o})
	}
	if len(c.waiters) > 0 {
		c.waiters[0].signalled = true
		c.waiters = c.waiters[1:]
	}
}

func (c *Cond) Broadcast() {
	c.o.Touch()
	if r := rt.Cur(); r != nil {
		r.Point(rt.Op{Kind: "cond.broadcast", Obj: &c.o})
	}
	for _, w := range c.waiters {
		w.signalled = true
	}
	c.waiters = nil
}
