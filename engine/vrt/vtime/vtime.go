// Package vtime mirrors package time with a virtual clock owned by rt.
package vtime

import (
	"time"

	"vrt/rt"
	"vrt/vchan"
)

type (
	Duration   = time.Duration
	Time       = time.Time
	Month      = time.Month
	Weekday    = time.Weekday
	Location   = time.Location
	ParseError = time.ParseError
)

const (
	Nanosecond  = time.Nanosecond
	Microsecond = time.Microsecond
	Millisecond = time.Millisecond
	Second      = time.Second
	Minute      = time.Minute
	Hour        = time.Hour
	RFC3339     = time.RFC3339
	RFC3339Nano = time.RFC3339Nano
	January     = time.January
)

var (
	UTC           = time.UTC
	Local         = time.Local
	Parse         = time.Parse
	ParseDuration = time.ParseDuration
	Date          = time.Date
	Unix          = time.Unix
	FixedZone     = time.FixedZone
	LoadLocation  = time.LoadLocation
)

func Now() Time {
	if r := rt.Cur(); r != nil {
		return r.Now()
	}
	return time.Now()
}

func Since(t Time) Duration { return Now().Sub(t) }
func Until(t Time) Duration { return t.Sub(Now()) }

type Timer struct {
	C   *vchan.Chan[Time]
	ent *rt.TimerEnt
	f   func()
	o   rt.Obj
}

func (t *Timer) obj() *rt.Obj {
	if t.C != nil {
		return t.C.Obj()
	}
	return &t.o
}

func (t *Timer) arm(r *rt.Run, d Duration) {
	if t.f != nil {
		f := t.f
		t.ent = r.AddTimer(d, t.obj(), func(r *rt.Run) { r.SpawnFromClock(f) })
		return
	}
	c := t.C
	t.ent = r.AddTimer(d, t.obj(), func(r *rt.Run) { c.TrySend(r.NowRaw()) })
}

func NewTimer(d Duration) *Timer {
	t := &Timer{C: vchan.Make[Time](1)}
	if r := rt.Cur(); r != nil {
		r.Point(rt.Op{Kind: "timer.new", Obj: t.obj()})
		t.arm(r, d)
	}
	return t
}

func AfterFunc(d Duration, f func()) *Timer {
	t := &Timer{f: f}
	if r := rt.Cur(); r != nil {
		r.Point(rt.Op{Kind: "timer.afterfunc", Obj: t.obj()})
		t.arm(r, d)
	}
	return t
}

func After(d Duration) *vchan.Chan[Time] { return NewTimer(d).C }

func (t *Timer) Stop() bool {
	r := rt.Cur()
	if r == nil {
		return t.ent.Disarm()
	}
	r.Point(rt.Op{Kind: "timer.stop", Obj: t.obj()})
	return t.ent.Disarm()
}

func (t *Timer) Reset(d Duration) bool {
	r := rt.Cur()
	if r == nil {
		return t.ent.Disarm()
	}
	r.Point(rt.Op{Kind: "timer.reset", Obj: t.obj()})
	was := t.ent.Disarm()
	t.arm(r, d)
	return was
}

type Ticker struct {
	C      *vchan.Chan[Time]
	ent    *rt.TimerEnt
	period Duration
	stop   bool
}

func (t *Ticker) arm(r *rt.Run) {
	t.ent = r.AddTimer(t.period, t.C.Obj(), func(r *rt.Run) {
		t.C.TrySend(r.NowRaw())
		if !t.stop {
			t.arm(r)
		}
	})
}

func NewTicker(d Duration) *Ticker {
	if d <= 0 {
		panic("non-positive interval for NewTicker")
	}
	t := &Ticker{C: vchan.Make[Time](1), period: d}
	if r := rt.Cur(); r != nil {
		r.Point(rt.Op{Kind: "ticker.new", Obj: t.C.Obj()})
		t.arm(r)
	}
	return t
}

func (t *Ticker) Stop() {
	if r := rt.Cur(); r != nil {
		r.Point(rt.Op{Kind: "ticker.stop", Obj: t.C.Obj()})
	}
	t.stop = true
	t.ent.Disarm()
}

func (t *Ticker) Reset(d Duration) {
	t.period = d
	t.ent.Disarm()
	if r := rt.Cur(); r != nil {
		r.Point(rt.Op{Kind: "ticker.reset", Obj: t.C.Obj()})
		t.arm(r)
	}
}

func Sleep(d Duration) {
	if d <= 0 {
		return
	}
	r := rt.Cur()
	if r == nil {
		return
	}
	woken := false
	o := &rt.Obj{}
	r.AddTimer(d, o, func(*rt.Run) { woken = true })
	r.Point(rt.Op{Kind: "sleep", Obj: o, Enabled: func() bool { return woken }})
}
