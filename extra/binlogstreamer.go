//go:build go1.18

// Replacement (through go build -overlay, verification builds only) for
// github.com/siddontang/go-mysql/replication/binlogstreamer.go: same API, but
// GetEvent waits on channels owned by the verification scheduler, and tests can
// push events directly. The real channels stay for binlogsyncer.go.
package replication

import (
	"golang.org/x/net/context"

	"github.com/juju/errors"
	"vrt/vchan"
)

var (
	ErrNeedSyncAgain = errors.New("Last sync error or closed, try sync and get event again")
	ErrSyncClosed    = errors.New("Sync was closed")
)

// BinlogStreamer gets the streaming event.
type BinlogStreamer struct {
	ch  chan *BinlogEvent
	ech chan error
	err error

	vch  *vchan.Chan[*BinlogEvent]
	vech *vchan.Chan[error]
}

// GetEvent gets the binlog event one by one; it blocks until an event or an error is available.
func (s *BinlogStreamer) GetEvent(ctx context.Context) (*BinlogEvent, error) {
	if s.err != nil {
		return nil, ErrNeedSyncAgain
	}
	var c *BinlogEvent
	var e error
	switch vchan.Select(false, vchan.RecvInto(s.vch, &c, nil), vchan.RecvInto(s.vech, &e, nil), vchan.External(ctx.Done())) {
	case 0:
		return c, nil
	case 1:
		s.err = e
		return nil, s.err
	default:
		return nil, ctx.Err()
	}
}

func (s *BinlogStreamer) close() {
	s.closeWithError(ErrSyncClosed)
}

func (s *BinlogStreamer) closeWithError(err error) {
	if err == nil {
		err = ErrSyncClosed
	}
	vchan.Select(true, vchan.SendOf(s.vech, err))
}

func newBinlogStreamer() *BinlogStreamer {
	s := new(BinlogStreamer)
	s.ch = make(chan *BinlogEvent, 10240)
	s.ech = make(chan error, 4)
	s.vch = vchan.Make[*BinlogEvent](10240)
	s.vech = vchan.Make[error](4)
	return s
}

// NewTestStreamer returns a streamer fed by Push / PushError.
func NewTestStreamer() *BinlogStreamer { return newBinlogStreamer() }

// Push delivers an event as the syncer would.
func (s *BinlogStreamer) Push(e *BinlogEvent) { s.vch.Send(e) }

// PushError ends the stream with an error.
func (s *BinlogStreamer) PushError(err error) { s.closeWithError(err) }
