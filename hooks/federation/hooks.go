//go:build verif

package federation

import (
	"context"
	"sort"

	"github.com/samsarahq/thunder/graphql"
)

// VerifSelectorSyncer is a SchemaSyncer that installs a ServiceSelector on every planner it produces.
type VerifSelectorSyncer struct {
	Inner    SchemaSyncer
	Selector ServiceSelector
}

func (s *VerifSelectorSyncer) FetchPlannerAndSchema(ctx context.Context) (*Planner, *graphql.Schema, error) {
	p, schema, err := s.Inner.FetchPlannerAndSchema(ctx)
	if err == nil && p != nil {
		p.serviceSelector = s.Selector
	}
	return p, schema, err
}

// VerifRefresh does what the ticker branch of poll does: fetch a new planner and install it.
func (e *Executor) VerifRefresh(ctx context.Context) error {
	newPlanner, schema, err := e.syncer.schemaSyncer.FetchPlannerAndSchema(ctx)
	if err == nil && newPlanner != nil {
		e.setPlanner(newPlanner, schema)
	}
	return err
}

// VerifFetch and VerifInstall are the two halves of VerifRefresh (so that a harness can explore only the second).
func (e *Executor) VerifFetch(ctx context.Context) (*Planner, *graphql.Schema, error) {
	return e.syncer.schemaSyncer.FetchPlannerAndSchema(ctx)
}

func (e *Executor) VerifInstall(p *Planner, schema *graphql.Schema) { e.setPlanner(p, schema) }

// VerifFieldServices lists, per "Type.field" of the merged schema, the services able to resolve it.
func (e *Executor) VerifFieldServices() map[string][]string {
	out := map[string][]string{}
	p := e.getPlanner()
	var walk func(t graphql.Type, seen map[graphql.Type]bool)
	walk = func(t graphql.Type, seen map[graphql.Type]bool) {
		switch t := t.(type) {
		case *graphql.NonNull:
			walk(t.Type, seen)
		case *graphql.List:
			walk(t.Type, seen)
		case *graphql.Union:
			for _, o := range t.Types {
				walk(o, seen)
			}
		case *graphql.Object:
			if seen[t] {
				return
			}
			seen[t] = true
			for name, f := range t.Fields {
				if info := p.schema.Fields[f]; info != nil {
					var ss []string
					for s, ok := range info.Services {
						if ok {
							ss = append(ss, s)
						}
					}
					sort.Strings(ss)
					out[t.Name+"."+name] = ss
				}
				walk(f.Type, seen)
			}
		}
	}
	walk(p.schema.Schema.Query, map[graphql.Type]bool{})
	return out
}

// VerifSubQuery is one request the executor would send for a plan node.
type VerifSubQuery struct {
	Service string
	Query   *graphql.Query
}

// VerifSubQueries plans a query and returns the sub-queries the executor would send,
// with an empty key list on federated hops (keys are data, not schema).
func (p *Planner) VerifSubQueries(q *graphql.Query) ([]VerifSubQuery, error) {
	plan, err := p.planRoot(q)
	if err != nil {
		return nil, err
	}
	var out []VerifSubQuery
	var walk func(pl *Plan, root bool)
	walk = func(pl *Plan, root bool) {
		if pl.Service != gatewayCoordinatorServiceName {
			ss := pl.SelectionSet
			if !root {
				name := pl.Service + "_" + pl.Type
				ss = &graphql.SelectionSet{Selections: []*graphql.Selection{{
					Name: federationField, Alias: federationField, Args: map[string]interface{}{},
					SelectionSet: &graphql.SelectionSet{Selections: []*graphql.Selection{{
						Name: name, Alias: name, UnparsedArgs: map[string]interface{}{"keys": []interface{}{}}, SelectionSet: pl.SelectionSet,
					}}},
				}}}
			}
			out = append(out, VerifSubQuery{Service: pl.Service, Query: &graphql.Query{Kind: pl.Kind, SelectionSet: ss}})
		}
		for _, sub := range pl.After {
			walk(sub, pl.Service == gatewayCoordinatorServiceName)
		}
	}
	walk(plan, false)
	return out, nil
}
