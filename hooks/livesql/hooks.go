//go:build verif

package livesql

import "github.com/samsarahq/thunder/sqlgen"

// VerifParseBinlogRow decodes a change-log row whose columns are in the struct's column order.
func VerifParseBinlogRow(table *sqlgen.Table, row []interface{}) (interface{}, error) {
	cm := &columnMap{expectedColumns: len(row)}
	for i := range table.Columns {
		cm.source = append(cm.source, i)
	}
	return parseBinlogRow(table, row, cm)
}
