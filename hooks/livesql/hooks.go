//go:build verif

package livesql

import (
	"database/sql"

	"github.com/samsarahq/thunder/logger"
	"github.com/samsarahq/thunder/sqlgen"
	"github.com/siddontang/go-mysql/replication"
)

// VerifParseBinlogRow decodes a change-log row whose columns are in the struct's column order.
func VerifParseBinlogRow(table *sqlgen.Table, row []interface{}) (interface{}, error) {
	cm := &columnMap{expectedColumns: len(row)}
	for i := range table.Columns {
		cm.source = append(cm.source, i)
	}
	return parseBinlogRow(table, row, cm)
}

// VerifParseBinlogRowVia decodes a change-log row whose columns are in the database's column order: the column
// permutation is built by the real buildColumnMap from what information_schema (conn) reports.
func VerifParseBinlogRowVia(conn *sql.DB, database string, table *sqlgen.Table, row []interface{}) (interface{}, error) {
	cm, err := buildColumnMap(conn, database, table)
	if err != nil {
		return nil, err
	}
	return parseBinlogRow(table, row, cm)
}

// VerifNewBinlog builds a Binlog around an in-process event stream (no replication connection).
func VerifNewBinlog(ldb *LiveDB, database string, streamer *replication.BinlogStreamer) *Binlog {
	return &Binlog{
		db:            ldb.DB,
		database:      database,
		tracker:       ldb.tracker,
		streamer:      streamer,
		tableVersions: make(map[string]uint64),
		columnMaps:    make(map[string]*columnMap),
		logger:        logger.New(),
	}
}

// VerifMarkClosed does what Close does to the poll loop's state, without a syncer.
func (b *Binlog) VerifMarkClosed() {
	b.mu.Lock()
	b.closed = true
	b.mu.Unlock()
}

// VerifTracked is the number of live query dependencies currently registered.
func (ldb *LiveDB) VerifTracked() int {
	ldb.tracker.mu.Lock()
	defer ldb.tracker.mu.Unlock()
	return len(ldb.tracker.resources)
}
