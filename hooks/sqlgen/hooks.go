//go:build verif

package sqlgen

// VerifExtractRow exposes extractRow (the filter made from a row's own column values).
func (t *Table) VerifExtractRow(row interface{}) Filter { return t.extractRow(row) }
