#!/usr/bin/env python3
# Regenerates MANIFEST.json from the table below (kept in sync with the harnesses that exist).
import json
props=[json.loads(l) for l in open('/verif/properties.jsonl')]
MC="stateless model checking of the implementation: deviation-bounded DFS over all thread schedules, timer firings and fault answers under a cooperative scheduler, with happens-before state caching"
ENUM="bounded exhaustive enumeration of inputs/operation sequences against a reference model (explicit enumeration, no sampling)"
NOTE="Trusted: the vrt shims (sync/atomic/chan/timer semantics), the source rewriter, data-race freedom between scheduling points (every Lock/Unlock/atomic/chan/timer op is one); bounded participants, alphabet and deviations as reported in the evidence."
claimed={
 "C20":("model_checking","Every interleaving (within the preemption bound) of 2-3 goroutines running Acquire/release/TemporarilyRelease scripts on the real concurrencylimiter is executed under the controlled scheduler; the number of counted holders is compared with the limit at every entry, deadlocks are detected, capacity is re-acquired at quiescence. Exhaustive within the bound: the right level for a lock-free CAS state machine whose bugs are 1-2 preemption windows.","§5 C20",MC),
 "C05":("model_checking","All interleavings (within the deviation bound) of 2-4 concurrent Invoke calls with virtual wait-interval / max-duration timers, shard functions, MaxSize, cancellation, a concurrency limiter on the context and explorer-chosen batch outcomes (ok/error/panic/short) on the real batch package; per execution every Many call and every Invoke return is checked against the property's clauses.","§5 C05",MC),
 "C04":("model_checking","All interleavings (within the deviation bound) of writers (version bump + Strobe / Invalidate), 1-2 rerunners in every configuration (alwaysSpawnGoroutine, minRerunInterval, WriteThenReadDelay on the virtual clock), a stopper and failing computations on the real reactive package, over direct, cached, shared-child, conditional and InvalidateAfter dependency shapes. Oracle per execution: run-overlap counter, no compute entry after Stop returned, and at quiescence the versions read by the last completed run equal the current versions.","§5 C04",MC),
 "C08":("model_checking","Same engine over trees of reactive.Cache sub-computations (1-2 children, shared child, two-level, conditional, PurgeCache inside a run, InvalidateAfter timers) with per-run resources carrying counting Cleanup callbacks. Oracle: versions embedded in the final output through cached children equal current versions at quiescence; cleanup count <=1 always, ==1 for superseded/stopped and ==0 for live resources, ==1 for all after Stop; InvalidateAfter timers are disarmed by cleanup (armed-deadline count at quiescence).","§5 C08",MC),
}
checks=[]
for pid in sorted(claimed):
    cat,text,ref,tech=claimed[pid]
    checks.append({"property_id":pid,"quick_cmd":f"./check {pid} quick","thorough_cmd":f"./check {pid} thorough","evidence_file":f"/verif/evidence/{pid}.json","replay_cmd_template":"./bin/vcheck replay {path}","engine":"vrt","level_claimed":{"category":cat,"text":text,"design_ref":ref},"level_note":NOTE,"technique":tech})
na=[{"property_id":p["id"],"reason":"check not built yet in this session (work in progress; see DESIGN.md §7d build order)"} for p in props if p["id"] not in claimed]
m={"version":1,"setup_cmd":"sh ./setup.sh","hooks":{"guard":"verif","enable":"go build -tags verif -overlay <generated overlay.json>: thunder sources are rewritten at check time into a scratch dir (sync/atomic/time/chan -> vrt shims) and verif-tagged files from /verif/hooks are added through the overlay; nothing in /repo is edited","baseline_off_cmd":"cd /repo && GOFLAGS=-mod=mod GOPROXY=off go test -vet=off -count=1 ./...","source_commits":[],"add_only":True},
"engines":[{"name":"vrt","path":"/verif/engine","serves_properties":sorted(claimed),"kind_free_text":"hand-rolled stateless model checker for Go: cooperative scheduler runtime (vrt), type-driven source rewriter + go build -overlay, deviation-bounded DFS explorer with happens-before caching, sharded over 16 processes"}],
"checks":checks,"not_applicable":na,"notes":"All checks rebuild the harness from /repo's working tree through the rewriter on every invocation."}
json.dump(m,open('/verif/MANIFEST.json','w'),indent=1)
