#!/usr/bin/env python3
# Generates /verif/seeded/INDEX.md from seeded/<name>/{meta.json,confirmed.json,patch.diff} and the notes below.
import json, os, re
ROOT = '/verif/seeded'
# how the registered check fared when the seed first arrived, and what was added to the harness when it was missed
NOTES = {
 'C01': ('missed', 'query generators gained "one named fragment spread at two sites whose same-alias siblings differ" (Flatten aliased a slice through the shared fragment)'),
 'C02': ('detected', ''),
 'C03': ('detected', ''),
 'C04': ('missed', 'reactive harness gained chained histories (cfg.Pre: settled writes before the concurrent phase) and the conditional shape with two resources: a cached child used, skipped by one run, used again'),
 'C05': ('detected', ''),
 'C06': ('missed', 'federation query list gained the shared-fragment family (mergeSameAlias copy flag not reset)'),
 'C07': ('missed', 'garbled events gained "one more column in the middle, every value still scans" (wider row, shifted values) and "narrower row"'),
 'C08': ('detected', ''),
 'C09': ('detected', ''),
 'C10': ('missed', 'fixture gained an implicitnull column and a []byte column, zero-valued / nil filters on them and rows holding NULL there'),
 'C11': ('missed', 'filter fields over a second column in expensive and batch form; combinations of 2-3 filter fields of different implementations where an element matches through only one'),
 'C12': ('detected', ''),
 'C13': ('detected', ''),
 'C14': ('missed', 'named fragments: one fragment (each field of each type) spread at two positions, same type (well-formed) or a type lacking the field / having it with the other kind (ill-formed), both orders; fixture gained Other.id (object) vs Leaf.id (scalar)'),
 'C15': ('missed', 'a mutation that is still running when later frames arrive and then panics (MP), unsubscribed while running with its id re-used by a live query; explored at bound 3'),
 'C16': ('detected', ''),
 'C17': ('missed at quick (bound 2), detected at thorough (bound 3)', 'a resolver that observes the cancellation of its run (slow), scripts S:a,U:a,S:a around it, explored at bound 3 in the quick tier too (cfg.Deep)'),
 'C18': ('missed', 'three variables feeding one field in every combination of {default, none} x {absent, null, value} and every declaration order'),
 'C19': ('missed', 'directive conditions through variables with defaults: default overridden by the supplied value, default used (absent / null), mixed over the sites'),
 'C20': ('detected', ''),
 # second round: the agents were told which function the first round had changed and asked for a different mechanism
 'C01b': ('missed', 'lists handed to the executor by value (comparable and non-comparable structs); mode sets with an Expensive field are also executed inside a reactive rerunner'),
 'C02b': ('missed', 'an Expensive field on long-lived objects (stable cache key) and chained settled histories (cfg.Chain): element dropped, its data changed while absent, element back'),
 'C03b': ('missed', 'pairs in which new shares old\'s backing storage (reslice to every length, extension into spare capacity, same-length alias; top level / under a field / as an element)'),
 'C04b': ('detected', ''),
 'C05b': ('missed', 'per-caller contexts: only one caller\'s own context is cancelled and a later call arrives on the live batching context after the cancelled caller returned'),
 'C06b': ('missed', 'mutations through the gateway whose result needs fields of other services (pickUser), with a once-only execution count'),
 'C07b': ('detected', ''),
 'C08b': ('missed', 'a transient failure (RetrySentinelError) of one attempt, at the top level or inside a cached child, after its dependencies were registered'),
 'C09b': ('detected', ''),
 'C10b': ('missed', 'statements that stay in flight for a scheduling step (fakesql.SlowSelect) explored at bound 2 with an early wait-interval timer'),
 'C11b': ('detected', ''),
 'C12b': ('detected', ''),
 'C13b': ('missed', 'a scheduled part: 2-3 threads decode rows of one table concurrently (query result / BuildStruct), a column whose Scan is a scheduling point'),
 'C14b': ('missed', 'one composite field under one alias with two different sub-selections at two paths to the same long-lived object; every accepted query is also executed inside a reactive rerunner'),
 'C15b': ('missed', 'fragments of 5 type conditions x 5 positions x 11 bodies (fields only the named type has, unknown fields, wrong shapes), inline and as spreads'),
 'C16b': ('missed', 'resolver errors that wrap context.Canceled (plain and safe-wrapped) while the subscription\'s own context is alive'),
 'C17b': ('missed', 'a re-run (not the first run) that fails once and is retried, followed by unsubscribe / close'),
 'C18b': ('detected', ''),
 'C19b': ('missed', 'both written orders of a @skip + @include pair on one node'),
 'C20b': ('detected', ''),
 # third round: the agents were told the two earlier sites and asked for a third mechanism
 'C01c': ('missed', 'scheduled part: by-value sources and resolvers that read their source only after a scheduling point (gqlfix hook yields), in Expensive / parallel modes'),
 'C02c': ('detected', ''),
 'C03c': ('detected', ''),
 'C04c': ('detected', ''),
 'C05c': ('missed', 'batch function panics with an error value, an int and a struct value (not only a string)'),
 'C06c': ('missed', 'a service unreachable while a refresh fetches the schemas (transient fault), with a further request once it is back'),
 'C07c': ('missed', 'model structs with non-column fields (sql:"-" and unexported) before the filtered columns, in the live-query fixture and the tester-vs-WHERE table'),
 'C08c': ('detected', ''),
 'C09c': ('detected', ''),
 'C10c': ('detected', ''),
 'C11c': ('detected', ''),
 'C12c': ('detected', ''),
 'C13c': ('missed (the seed made the decoder panic, which the enumerating harness reported as an engine error, exit 2)', 'database column orders that differ from the struct\'s (reversed, rotated, unmapped columns in front / in the middle) through the real column-map builder; a panic escaping an enumerating harness is now a violation'),
 'C14c': ('missed', 'NonNullable plain and batch methods (object and scalar pointers) that return nil for some objects: an error is the conforming answer, a null is not'),
 'C15c': ('detected', ''),
 'C16c': ('missed', 'a configurable field whose resolver returns nothing but an error (plain, expensive, batch, fallback, parallel forms)'),
 'C17c': ('missed at quick (bound 2), detected at thorough (bound 3)', 'subscribe immediately followed by unsubscribe / close explored at bound 3 in the quick tier too'),
 'C18c': ('missed', 'variables as elements of list literals, fields of object literals and inside nested lists (all 32 subsets of five positions)'),
 'C19c': ('detected', ''),
 'C20c': ('detected', ''),
 # fourth round: three earlier sites given; asked for an untouched clause / quantifier dimension
 'C01d': ('detected', ''),
 'C02d': ('missed', 'a union member without a key field (keyless <-> keyed switches) and convergence judged after every settled step of a chained history, not only at its end'),
 'C03d': ('detected', ''),
 'C04d': ('detected', ''),
 'C05d': ('detected', ''),
 'C06d': ('missed', 'root fields on different services (sibling sub-plans stitching into one result object) in the race-monitored refresh harness'),
 'C07d': ('missed', 'several rows changed by one commit, delivered as one rows event with several (before, after) pairs'),
 'C08d': ('detected', ''),
 'C09d': ('missed', 'inputs left unmodified by a merge, a second merge of the same objects gives the same schema; enum edits whose value sets are incomparable'),
 'C10d': ('detected', ''),
 'C11d': ('detected', ''),
 'C12d': ('missed', 'both orders of putting a shard limit and a dynamic limit on one handle'),
 'C13d': ('detected', ''),
 'C14d': ('missed', 'methods with NumParallelInvocations (plain and batch) selected under null objects and lists of nulls'),
 'C15d': ('missed', 'a sub-query blocked on its context when a sibling fails (the failure must cancel it)'),
 'C16d': ('missed (found, but a stack trace in the panic text made the 5 confirmation re-runs differ: reported as an engine error, exit 2)', 'a list with null entries in front of and between the objects; failure texts are compared with addresses and goroutine numbers masked'),
 'C17d': ('detected', ''),
 'C18d': ('missed', 'a self-referential input object nested four levels deep with fields after the self-reference, wrong kinds and missing required fields at nested levels'),
 'C19d': ('detected', ''),
 'C20d': ('detected', ''),
 # fifth round: four earlier sites given
 'C01e': ('missed', 'a resolver that returns only an error and fails, in every execution mode, where the sequential reference has no result: Execute must fail too'),
 'C02e': ('missed', 'pass-through middlewares registered on the connection (1 and 3), each a scheduling point, with a mutation next to a subscription'),
 'C03e': ('detected', ''),
 'C04e': ('missed', 'Stop after the context the rerunner was created with has been cancelled, and two concurrent Stops'),
 'C05e': ('missed', 'a shard function returning values of two named integer types that print alike'),
 'C06e': ('missed', 'fragments whose type condition is the union\'s own name, judged against the single server\'s answer to the inlined query (the single server itself ignores such fragments: known finding)'),
 'C07e': ('missed', 'the column list cannot be fetched (driver.ErrBadConn) while change events arrive'),
 'C08e': ('detected', ''),
 'C09e': ('detected', ''),
 'C10e': ('missed', 'a column whose name equals the underscore-join of two other column names, with filters on both column sets in one batch'),
 'C11e': ('detected', ''),
 'C12e': ('detected', ''),
 'C13e': ('missed', 'a column type whose Valuer fails for some values, used as a filter value shipped through protobuf'),
 'C14e': ('missed', 'one response key selected twice in one selection set with a named or inline fragment in the first or second occurrence (objects and unions)'),
 'C15e': ('detected', ''),
 'C16e': ('missed', 'failing sort-field / filter-field resolvers (plain, Expensive, batch, fallback) of a paginated field and failing fields of the listed objects'),
 'C17e': ('detected', ''),
 'C18e': ('detected', ''),
 'C19e': ('missed (and the gateway part of the check turned out to stop after ~11% of its cases: virtual-clock cap inside one long run, not reported)', 'templates with fragments on the union\'s own name (inline, spread twice) through the gateway; the clock/step caps of the long enumerating runs were raised and a cap is now reported'),
 'C20e': ('missed', 'a limiter of size 0: a live-context Acquire never gets through, cancelled ones return without a token'),
 # sixth round: five earlier sites given
 'C01f': ('detected', ''),
 'C02f': ('missed', 'a mutation that re-uses the id of a live subscription, then the unsubscribe (the C17 check had this script, the C02 check did not)'),
 'C03f': ('detected', ''),
 'C04f': ('detected', ''),
 'C05f': ('detected', ''),
 'C06f': ('detected', ''),
 'C07f': ('missed', 'a database column order that differs from the struct\'s in the live path (information_schema reports it, change events follow it), with scan-compatible columns changing places'),
 'C08f': ('detected', ''),
 'C09f': ('detected', ''),
 'C10f': ('missed', 'read isolation in the in-memory driver and a query inside a transaction holding an uncommitted row next to a query outside it'),
 'C11f': ('missed', 'string-keyed lists in which one key is the empty string (its cursor is the empty string)'),
 'C12f': ('detected', ''),
 'C13f': ('missed', 'a type that serialises itself (driver.Valuer + sql.Scanner) under a json / string / binary tag'),
 'C14f': ('missed', 'union fields with fragments for only one member or none (the other members still answer the union\'s own __typename)'),
 'C15f': ('missed', 'a subscription cancelled while its cancellation-observing resolver is executing (unsubscribe, socket close, context cancel) in the C15 scripts'),
 'C16f': ('missed', 'an application error type implementing SanitizedError whose log text and client text differ'),
 'C17f': ('missed', 'the socket closes while a cancellation-observing run is in flight'),
 'C18f': ('missed', 'the argument sits in a named fragment: variable, default used (absent / null)'),
 'C19f': ('missed', 'a spread with a directive inside another fragment\'s definition under a union parent (both name orders) and through the gateway'),
 'C20f': ('missed', 'nested temporary release after which the outer function takes and returns a token of its own'),
 'C01g': ('detected', ''),
 'C02g': ('missed', 'a list that becomes empty (and non-empty again) under a live subscription: a "clear" change and a chained history'),
 'C03g': ('detected', ''),
 'C04g': ('detected', ''),
 'C05g': ('detected', ''),
 'C06g': ('detected', ''),
 'C07g': ('missed', 'a live computation that selects between two live queries by other reactive state (selection away, the writes, selection back: a query dropped in one run and used again later)'),
 'C08g': ('missed', 'Stop after the creator\'s context was cancelled, and two concurrent Stops, judged by the C08 cleanup oracle (the configurations existed under C04 only)'),
 'C09g': ('detected', ''),
 'C10g': ('missed', 'a non-column struct field before the filtered columns (struct index differs from column order)'),
 'C11g': ('missed', 'one paginated selection resolved for several lists: several parent objects with lists of different lengths, and one prepared query executed again after the list changed'),
 'C12g': ('missed', 'one *SelectOptions value used for two calls with different filters (a rejected call followed by a retry; options first used for another shard)'),
 'C13g': ('missed', 'a self-serialising non-pointer column whose NULL form is not its zero value'),
 'C14g': ('missed', 'a scheduled harness: a request cancelled at any moment of an execution under a rerunner over a list holding one object twice (the second Expensive unit waits for the first one\'s cache entry)'),
 'C15g': ('detected', ''),
 'C16g': ('missed', 'lists handed over by value (non-comparable structs) and, for Expensive mode sets, execution inside a reactive rerunner in the failing-resolver enumeration'),
 'C17g': ('detected', ''),
 'C18g': ('missed', 'a required input object whose own fields are all optional: alone, as a field of another input object, as a list element'),
 'C19g': ('missed', 'one leaf in both copies of a repeated parent field, with its own directives in each copy (gateway and single server)'),
 'C20g': ('detected', ''),
 'C01h': ('detected', ''),
 'C02h': ('missed', 'the unsubscribe-versus-scheduled-re-run scripts explored at bound 3 (the window is three deviations deep)'),
 'C03h': ('detected', ''),
 'C04h': ('detected', ''),
 'C05h': ('missed', 'batch outcomes "all results next to an error" and "some results next to an error"'),
 'C06h': ('missed', 'fragments inside mutations: on a payload type only the mutation returns, and on the Mutation root'),
 'C07h': ('missed', 'a burst of 1040 single-row inserts (the rows a live query selects last) while the update applier is delayed: more change events than the poll loop buffers'),
 'C08h': ('missed', 'a non-reactive reader (AddDependency without a rerunner) of a long-lived resource a live computation depends on; oracle: no cleanup while live, no re-run without a write'),
 'C09h': ('missed', 'edits that retarget a field to another object type of the same kind'),
 'C10h': ('detected', ''),
 'C11h': ('missed', 'sort values at the ends of the int64 range (differences that overflow)'),
 'C12h': ('missed', 'a log-only dynamic limit (callback says continue) next to a shard limit, in both orders'),
 'C13h': ('detected', ''),
 'C14h': ('detected', ''),
 'C15h': ('missed', 'deep nesting placed after a comment line ended by LF / CR / CRLF and after a string holding brackets'),
 'C16h': ('missed', 'an Expensive field with a dependency of its own that starts failing on a re-run, then another dependency changes; oracle: while the query fails the client keeps the last successful answer'),
 'C17h': ('detected', ''),
 'C18h': ('missed', 'harness c18/shared-selection: one selection inside a named fragment reaching the resolvers of two types (same / identical / differing argument structs, paginated)'),
 'C19h': ('missed', '__typename carrying the directives itself (under objects, aliased, on unions, in fragments)'),
 'C20h': ('missed', 'a temporarily released function that panics, recovered by the caller which goes on working'),
}
# seeds whose change has no effect any more on the current tree (a later repair of thunder covers the same line), or whose
# patch was rebased onto a line a later repair changed (the original is kept as patch.orig.diff)
LATER = {
 'C02d': 'superseded: after fix bb3c8c4 (presence of __key is compared first) the changed comparison cannot differ any more; the demonstration passes with the change rebased onto the current line. Detected (record below) on the tree it was made for.',
 'C03': 'superseded by fix bb3c8c4 like C02d (the same line).',
 'C16b': 'superseded: after fix b3d84a6 a cancellation cause only counts while the run\'s own context has ended, which is what the change broke; detected (record below) on the tree it was made for.',
 'C14': 'patch rebased onto fix 8c30090 (same change: sub-selections validated only on the first visit).',
 'C15f': 'patch rebased onto fix b3d84a6 (same change: the close runs synchronously in the cancelled branch).',
 'C17': 'patch rebased onto fix b3d84a6 (same change: closeSubscription instead of closeSubscriptionIfCurrent).',
 'C20': 'patch rebased onto fix 8f32405 (same change: status checked, token sent, status stored - not atomic).',
 'C20f': 'patch rebased onto fix 8f32405 (same change: the deferred re-acquire moved out of the if).',
 'C20g': 'patch rebased onto fix 8f32405 (same change: the re-acquire send races with ctx.Done).',
 'C18h': 'patch rebased onto the follow-up repair of the same check (same change: convertible argument struct types are let through).',
}
rows = []
for name in sorted(os.listdir(ROOT)):
    d = os.path.join(ROOT, name)
    if not os.path.isfile(os.path.join(d, 'patch.diff')):
        continue
    meta = json.load(open(os.path.join(d, 'meta.json')))
    conf = json.load(open(os.path.join(d, 'confirmed.json'))) if os.path.exists(os.path.join(d, 'confirmed.json')) else {}
    files = sorted(set(re.findall(r'^\+\+\+ b/(\S+)', open(os.path.join(d, 'patch.diff')).read(), re.M)))
    rows.append((name, meta, conf, files))
out = ['# Seeded property-breaking changes', '',
       'Each directory holds a change written by a fresh sub-agent that saw only the property text and a scratch worktree of',
       '/repo (nothing from /verif): `patch.diff` (applies to /repo with `git apply`), `seed_demo_test.go` (fails with the change,',
       'passes without), `meta.json` (the agent\'s description) and `confirmed.json` (what I ran: `/verif/seedcheck.sh <id> <tier> <dir>`',
       '- demonstration before/after in a scratch worktree, the pinned 398-test baseline with the patch, then the registered check',
       'against the patched tree through `VERIF_REPO`). None of these changes is committed to /repo.', '',
       'To re-run one by hand: `git -C /repo apply /verif/seeded/<dir>/patch.diff; /verif/check <id> quick; git -C /repo checkout -- .`', '',
       '| dir | property | file | what it needs to manifest | confirmed (demo fails/passes, baseline 398) | first run of the check | final: detected at quick? (signatures, min deviations) | harness change made for it |',
       '|---|---|---|---|---|---|---|---|']
for name, meta, conf, files in rows:
    chk = conf.get('check', {})
    q = chk.get('quick', {})
    t = chk.get('thorough', {})
    det = 'yes' if q.get('detected') else ('no' if q else 'not run')
    if q.get('detected'):
        det += ' (%s; cost %s)' % (', '.join(s.split('/', 1)[-1] for s in q.get('signatures', [])[:3]), q.get('min_cost'))
    if t:
        det += '; thorough: %s' % ('yes' if t.get('detected') else 'no')
    first, change = NOTES.get(name, ('', ''))
    if name in LATER:
        change = (change + '; ' if change else '') + LATER[name]
    needs = meta.get('needs_to_manifest', '').replace('|', '/').replace('\n', ' ')
    if len(needs) > 330:
        needs = needs[:327] + '...'
    out.append('| %s | %s | %s | %s | %s | %s | %s | %s |' % (name, conf.get('property', meta.get('property')), ', '.join(files), needs,
               'yes' if conf.get('confirmed') else 'NO', first, det, change or '-'))
open(os.path.join(ROOT, 'INDEX.md'), 'w').write('\n'.join(out) + '\n')
print('wrote', len(rows), 'rows')
