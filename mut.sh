#!/bin/sh
# usage: mut.sh <ID> <tier> <patch-file> [pkgs-to-test]   — run a check against a scratch worktree with a patch applied
set -e
ID=$1; TIER=$2; PATCH=$3; PKGS=${4:-./...}
D=$(mktemp -d /tmp/mut-XXXXXX); rmdir $D
git -C /repo worktree add -q --detach $D
trap 'git -C /repo worktree remove --force $D' EXIT
git -C $D apply $PATCH
export GOFLAGS=-mod=mod GOPROXY=off GOSUMDB=off GOTOOLCHAIN=local
if [ "$PKGS" != "none" ]; then (cd $D && go test -vet=off -count=1 $PKGS 2>&1 | grep -v "^ok\|no test files" | tail -15) || true; fi
shift 4 2>/dev/null || true
VERIF_REPO=$D /verif/bin/vcheck $ID --tier $TIER --no-evidence "$@" | cut -c1-400 | head -30
