#!/bin/sh
# usage: seedcheck.sh <ID> [tier] [seed-dir-name]
# Confirms a seeded property-breaking change and runs the registered check against it, in a scratch worktree of /repo
# (never in /repo itself). Steps, all recorded in /verif/seeded/<name>/confirmed.json:
#   1. the demonstration test passes on the unchanged tree
#   2. the patch applies, the library builds, the demonstration fails
#   3. the repository's pinned baseline (398 tests) still passes with the patch
#   4. /verif/bin/vcheck <ID> --tier <tier> against the patched tree (VERIF_REPO): detected or not, with signatures
ID=$1; TIER=${2:-quick}; NAME=${3:-$ID}
export GOFLAGS=-mod=mod GOPROXY=off GOSUMDB=off GOTOOLCHAIN=local
SRC=/verif/seeded/$NAME
if [ ! -d $SRC ] && [ -d /tmp/seed-$NAME/SEED ]; then mkdir -p $SRC && cp /tmp/seed-$NAME/SEED/* $SRC/; fi
[ -f $SRC/patch.diff ] || { echo "no seed at $SRC"; exit 2; }
D=/tmp/sv-$NAME; git -C /repo worktree remove --force $D 2>/dev/null; rm -rf $D
git -C /repo worktree add -q --detach $D || exit 2
trap 'git -C /repo worktree remove --force $D; rm -f /tmp/sv-$NAME.*' EXIT
PKG=$(head -3 $SRC/seed_demo_test.go | grep -o '[a-z/]*' | grep -m1 -E '^(graphql|federation|reactive|batch|sqlgen|livesql|concurrencylimiter|diff|merge|internal)(/[a-z]*)*$')
[ -z "$PKG" ] && PKG=$(python3 -c "import json;print(json.load(open('$SRC/meta.json'))['files'][0].rsplit('/',1)[0])")
PKG=${PKG%/}
echo "demo package: $PKG"
if [ -n "$SEEDCHECK_ONLY" ] && [ -f $SRC/confirmed.json ]; then
  # re-run of an already confirmed seed: only the registered check against the patched tree
  git -C $D apply $SRC/patch.diff || { echo "PATCH DOES NOT APPLY"; exit 3; }
  VERIF_REPO=$D /verif/bin/vcheck $ID --tier $TIER --no-evidence > /tmp/sv-$NAME.check 2>&1; CHECK=$?
  python3 /verif/seedrecord.py "$ID" "$TIER" "$NAME" "$CHECK"
  exit 0
fi
cp $SRC/seed_demo_test.go $D/$PKG/seed_demo_test.go
( cd $D && go test -count=1 -run 'Seed' ./$PKG/ >/tmp/sv-$NAME.clean 2>&1 ); CLEAN=$?
tail -2 /tmp/sv-$NAME.clean; echo "^ demo WITHOUT patch (must pass): exit $CLEAN"
if ! git -C $D apply $SRC/patch.diff; then echo "PATCH DOES NOT APPLY"; exit 3; fi
( cd $D && go build ./... ) ; BUILD=$?
( cd $D && go test -count=1 -run 'Seed' ./$PKG/ >/tmp/sv-$NAME.patched 2>&1 ); PATCHED=$?
tail -3 /tmp/sv-$NAME.patched; echo "^ demo WITH patch (must fail): exit $PATCHED"
rm $D/$PKG/seed_demo_test.go
python3 /verif/basecheck.py $D | tee /tmp/sv-$NAME.base
VERIF_REPO=$D /verif/bin/vcheck $ID --tier $TIER --no-evidence > /tmp/sv-$NAME.check 2>&1; CHECK=$?
cut -c1-400 /tmp/sv-$NAME.check | head -6; tail -1 /tmp/sv-$NAME.check | cut -c1-300
python3 - "$ID" "$TIER" "$NAME" "$CLEAN" "$BUILD" "$PATCHED" "$CHECK" <<'E'
import sys, json, re, subprocess
id, tier, name, clean, build, patched, check = sys.argv[1:8]
base = open('/tmp/sv-%s.base' % name).read().strip().splitlines()[-1]
out = open('/tmp/sv-%s.check' % name).read()
sigs = sorted(set(re.findall(r'signature=(\S+)', out)))
costs = sorted(set(int(c) for c in re.findall(r' cost=(\d+) signature', out)))
path = '/verif/seeded/%s/confirmed.json' % name
try:
    rec = json.load(open(path))
except Exception:
    rec = {}
rec.update({
    'property': id,
    'repo_commit': subprocess.check_output(['git', '-C', '/repo', 'rev-parse', '--short', 'HEAD']).decode().strip(),
    'demo_without_patch_exit': int(clean), 'build_with_patch_exit': int(build), 'demo_with_patch_exit': int(patched),
    'baseline_with_patch': base,
    'confirmed': int(clean) == 0 and int(build) == 0 and int(patched) != 0 and 'missing=0' in base,
    'how': 'seedcheck.sh %s %s %s: scratch worktree of /repo; go test -run Seed on the demonstration before and after git apply patch.diff; basecheck.py (the pinned 398-test baseline) with the patch; vcheck against the patched worktree' % (id, tier, name),
})
rec.setdefault('check', {})[tier] = {'exit': int(check), 'detected': int(check) == 1 and 'VIOLATION property=' + id in out,
                                    'signatures': sigs[:12], 'min_cost': (costs[0] if costs else None),
                                    'summary': out.strip().splitlines()[-1][:300] if out.strip() else ''}
json.dump(rec, open(path, 'w'), indent=1)
print('confirmed=%s detected(%s)=%s' % (rec['confirmed'], tier, rec['check'][tier]['detected']))
E
