#!/usr/bin/env python3
# records the result of one check run against a seeded change into /verif/seeded/<name>/confirmed.json
import sys, json, re
id, tier, name, check = sys.argv[1:5]
out = open('/tmp/sv-%s.check' % name).read()
path = '/verif/seeded/%s/confirmed.json' % name
rec = json.load(open(path))
sigs = sorted(set(re.findall(r'signature=(\S+)', out)))
costs = sorted(set(int(c) for c in re.findall(r' cost=(\d+) signature', out)))
rec.setdefault('check', {})[tier] = {'exit': int(check), 'detected': int(check) == 1 and 'VIOLATION property=' + id in out,
                                    'signatures': sigs[:12], 'min_cost': (costs[0] if costs else None),
                                    'summary': out.strip().splitlines()[-1][:300] if out.strip() else ''}
json.dump(rec, open(path, 'w'), indent=1)
print('confirmed=%s detected(%s)=%s' % (rec['confirmed'], tier, rec['check'][tier]['detected']))
