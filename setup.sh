#!/bin/sh
# Builds the verification tools from files on disk only (offline).
set -e
export GOFLAGS=-mod=mod GOPROXY=off GOSUMDB=off GOTOOLCHAIN=local
cd /verif
mkdir -p bin out evidence
(cd engine/rewrite && go build -o /verif/bin/vrewrite .)
(cd engine && go build -o /verif/bin/vcheck ./cmd/vcheck)
# warm the build cache: rewrite + overlay build of the harness binary once
./bin/vcheck warm
echo setup ok
