#!/usr/bin/env python3-vt
import json,jsonschema,sys,glob
jsonschema.validate(json.load(open('/verif/MANIFEST.json')),json.load(open('/root/.vp/MANIFEST.schema.json')))
es=json.load(open('/root/.vp/EVIDENCE.schema.json'))
for f in sorted(glob.glob('/verif/evidence/*.json')):
    jsonschema.validate(json.load(open(f)),es); print('ok',f)
m=json.load(open('/verif/MANIFEST.json'))
ids={c['property_id'] for c in m['checks']}|{c['property_id'] for c in m.get('not_applicable',[])}
allp={json.loads(l)['id'] for l in open('/verif/properties.jsonl')}
assert ids==allp,(allp-ids,ids-allp)
print('manifest ok',len(m['checks']),'checks')
